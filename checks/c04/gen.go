package c04

import (
	"fmt"
	"math/bits"
	"strings"

	"pgregory.net/rapid"
)

// slen is the generator's knowledge of a slice's length and capacity.
type slen struct{ l, c int }

type pvar struct {
	name string
	t    *typ
}

// Program is one generated case.
type Program struct {
	Src string
	// Ops counts operation kinds (top-level steps) and mutation forms.
	Ops map[string]int
	// Flagged maps step numbers to the non-trivial shape they contain
	// ("copy-mutate" or "alias-append").
	Flagged map[int]string
	// Guarded is the set of steps that have at least one top-level guard.
	Guarded map[int]bool
	Steps   int
}

type gen struct {
	needHash bool
	t         *rapid.T
	off       map[string]bool
	types     map[string]*typ
	structs   []*typ
	named     []*typ // named array, slice and map types
	K         int    // the common array length
	pool      []*pvar
	global    bool
	funcs     []string
	w         *writer
	mainW     *writer
	nest      int // nesting depth of guards in the main writer
	step      int
	tmp       int
	shadow    map[string]*slen
	keys      map[string]map[int]bool // known key sets of maps at static places
	schemas   map[*typ][]schema
	prog      *Program
	nLater    int // closures stored so far
	noReslice bool
}

func (g *gen) rng(a, b int, label string) int {
	if b < a {
		b = a
	}
	return rapid.IntRange(a, b).Draw(g.t, label)
}

// uni draws an integer in [0,n) uniformly (rapid's integer generators favour
// small values, which is wanted for indexes and values but not for choices
// among alternatives); built from fair coin flips so that it still shrinks.
func (g *gen) uni(n int, label string) int {
	if n <= 1 {
		return 0
	}
	nb := bits.Len(uint(n - 1))
	for {
		v := 0
		for i := 0; i < nb; i++ {
			if rapid.Bool().Draw(g.t, label) {
				v |= 1 << i
			}
		}
		if v < n {
			return v
		}
	}
}
func (g *gen) chance(pct int) bool { return g.uni(100, "pct") < pct }
func (g *gen) fresh(prefix string) string {
	g.tmp++
	return fmt.Sprintf("%s%d", prefix, g.tmp)
}
func (g *gen) count(k string) { g.prog.Ops[k]++ }

// ---------------------------------------------------------------------------
// types and pool

func (g *gen) mkTypes() {
	it := g.intT()
	g.K = g.rng(2, 4, "K")
	ns := g.rng(2, 3, "nstructs")
	for i := 0; i < ns; i++ {
		st := &typ{k: kStruct, str: fmt.Sprintf("S%d", i)}
		st.fields = append(st.fields, field{"n", it})
		nf := g.rng(1, 3, "nfields")
		for j := 0; j < nf; j++ {
			var ft *typ
			max := 5
			if i > 0 {
				max = 11
			}
			c := g.uni(max+1, "fieldkind")
			var sj *typ
			if i > 0 {
				sj = g.structs[g.uni(i, "sj")]
			}
			switch c {
			case 0:
				ft = it
			case 1:
				ft = g.arr(g.K, it)
			case 2:
				ft = g.slice(it)
			case 3:
				ft = g.mapOf(it)
			case 4:
				ft = g.ptr(it)
			case 5:
				ft = g.ptr(g.arr(g.K, it))
			case 6:
				ft = sj
			case 7:
				ft = g.ptr(sj)
			case 8:
				ft = g.slice(sj)
			case 9:
				ft = g.arr(2, sj)
			case 10:
				ft = g.mapOf(sj)
			case 11:
				ft = g.slice(g.slice(it))
			}
			st.fields = append(st.fields, field{fmt.Sprintf("f%d", j+1), ft})
		}
		g.structs = append(g.structs, g.intern(st))
	}
	if g.off["named-types"] {
		return
	}
	if g.chance(50) {
		g.namedType("A0", g.arr(g.K, it))
	}
	if g.chance(40) {
		g.namedType("L0", g.slice(it))
	}
	if g.chance(25) {
		g.namedType("M0", g.mapOf(g.arr(g.K, it)))
	}
	if g.chance(25) {
		g.namedType("A1", g.arr(2, g.structs[0]))
	}
}

func (g *gen) baseType() *typ {
	it := g.intT()
	s := g.structs[g.uni(len(g.structs), "s")]
	if len(g.named) > 0 && g.chance(25) {
		return g.named[g.uni(len(g.named), "named")]
	}
	switch g.uni(16, "basekind") {
	case 0:
		return g.arr(g.K, it)
	case 1:
		return g.arr(2, g.arr(g.K, it))
	case 2:
		return g.arr(g.K, g.slice(it))
	case 3, 4:
		return s
	case 5:
		return g.arr(2, s)
	case 6:
		return g.slice(it)
	case 7:
		return g.slice(g.slice(it))
	case 8:
		return g.slice(s)
	case 9:
		return g.slice(g.arr(g.K, it))
	case 10:
		return g.mapOf(it)
	case 11:
		return g.mapOf(s)
	case 12:
		return g.mapOf(g.slice(it))
	case 13:
		return g.mapOf(g.arr(g.K, it))
	case 14:
		return g.mapOf(g.ptr(s))
	default:
		return g.slice(g.ptr(s))
	}
}

func (g *gen) mkPool() {
	it := g.intT()
	var bases []*typ
	seen := map[*typ]bool{}
	add := func(t *typ) {
		if !seen[t] {
			seen[t] = true
			bases = append(bases, t)
		}
	}
	// always one value aggregate and one slice
	if g.chance(50) {
		add(g.arr(g.K, it))
	} else {
		add(g.structs[len(g.structs)-1])
	}
	if g.chance(50) {
		add(g.slice(it))
	} else {
		add(g.slice(g.structs[g.uni(len(g.structs), "s")]))
	}
	nb := 3 + g.uni(3, "nbases")
	for tries := 0; len(bases) < nb && tries < 20; tries++ {
		add(g.baseType())
	}
	var ts []*typ
	ts = append(ts, bases...)
	n := 6 + g.uni(5, "npool")
	for len(ts) < n {
		b := bases[g.uni(len(bases), "b")]
		switch c := g.uni(10, "extra"); {
		case c < 5:
			ts = append(ts, b)
		case c < 8:
			if b.k == kPtr {
				ts = append(ts, b)
			} else {
				ts = append(ts, g.ptr(b))
			}
		case c < 9:
			ts = append(ts, g.ptr(it))
		default:
			ts = append(ts, g.ptr(g.arr(g.K, it)))
		}
	}
	for i, t := range ts {
		g.pool = append(g.pool, &pvar{fmt.Sprintf("v%d", i), t})
	}
}

// ---------------------------------------------------------------------------
// place selection

type cand struct {
	v  *pvar
	sc schema
}

// poolPlaces lists all (variable, schema) pairs that satisfy want.
func (g *gen) poolPlaces(want func(schema) bool) []cand {
	var out []cand
	for _, v := range g.pool {
		for _, sc := range g.schemasOf(v.t) {
			if want(sc) {
				out = append(out, cand{v, sc})
			}
		}
	}
	return out
}

// pickPool picks a place in the pool: first a variable, then a schema.
func (g *gen) pickPool(want func(schema) bool) (place, bool) {
	var vars []*pvar
	for _, v := range g.pool {
		for _, sc := range g.schemasOf(v.t) {
			if want(sc) {
				vars = append(vars, v)
				break
			}
		}
	}
	if len(vars) == 0 {
		return place{}, false
	}
	v := vars[g.uni(len(vars), "var")]
	return g.pickUnder(v.name, v.t, true, want)
}

// pickUnder picks a place reachable from a root expression of type t.
func (g *gen) pickUnder(root string, t *typ, rootStatic bool, want func(schema) bool) (place, bool) {
	var ok []schema
	for _, sc := range g.schemasOf(t) {
		if want(sc) {
			ok = append(ok, sc)
		}
	}
	if len(ok) == 0 {
		return place{}, false
	}
	return g.inst(root, rootStatic, ok[g.uni(len(ok), "schema")]), true
}

func (g *gen) isPoolRoot(root string) bool {
	for _, v := range g.pool {
		if v.name == root {
			return v.t.k != kPtr
		}
	}
	return false
}

// ---------------------------------------------------------------------------
// shadow maintenance

// wrote is called after a statement that may have changed slice headers
// stored in p.
func (g *gen) wrote(p place) {
	if p.t.k == kInt {
		return
	}
	if !p.static {
		// written through an index, a pointer or inside a function: any
		// recorded header may be the one (aliasing is not tracked)
		g.forget()
		return
	}
	for k := range g.shadow {
		if strings.HasPrefix(k, p.expr) {
			delete(g.shadow, k)
		}
	}
	for k := range g.keys {
		if strings.HasPrefix(k, p.expr) {
			delete(g.keys, k)
		}
	}
}

func (g *gen) forget() {
	g.shadow = map[string]*slen{}
	g.keys = map[string]map[int]bool{}
}

// ---------------------------------------------------------------------------
// guards

// guarded emits `if guards { body } else { skip marker }` (or just the body
// when there is nothing to guard).
func (g *gen) guarded(guards []string, body func()) {
	guards = dedup(guards)
	if len(guards) == 0 {
		body()
		return
	}
	top := g.w == g.mainW && g.nest == 0
	if top {
		g.prog.Guarded[g.step] = true
	}
	g.w.line("if %s {", strings.Join(guards, " && "))
	g.w.ind++
	g.nest++
	body()
	g.nest--
	g.w.ind--
	g.w.line("} else {")
	g.w.ind++
	if top {
		g.w.line("fmt.Println(\"skip\", %d)", g.step)
	} else {
		g.w.line("fmt.Println(\"skip-inner\")")
	}
	g.w.ind--
	g.w.line("}")
}

func dedup(s []string) []string {
	seen := map[string]bool{}
	var out []string
	for _, x := range s {
		if !seen[x] {
			seen[x] = true
			out = append(out, x)
		}
	}
	return out
}

// ---------------------------------------------------------------------------
// mutations (usable on pool variables, parameters, locals)

var mutForms = []string{"int", "int", "int", "int", "lit", "append", "append", "reslice", "reslice3", "copy", "delidiom", "appendslice", "mapins", "mapdel", "maprmw"}

// mutate emits one guarded statement that changes something reachable from
// root. It reports the form used ("" if nothing applies).
func (g *gen) mutate(root string, t *typ, rootStatic bool) string {
	start := g.uni(len(mutForms), "mutform")
	for i := 0; i < len(mutForms); i++ {
		f := mutForms[(start+i)%len(mutForms)]
		if g.off["mut:"+f] {
			continue
		}
		if g.tryMutate(f, root, t, rootStatic) {
			g.count("mut:" + f)
			return f
		}
	}
	return ""
}

// mutateInt is the plain element/field update.
func (g *gen) mutateInt(root string, t *typ, rootStatic bool) bool {
	if g.tryMutate("int", root, t, rootStatic) {
		g.count("mut:int")
		return true
	}
	return g.mutate(root, t, rootStatic) != ""
}

// mutateIntOnly emits an element/field update and nothing else (false when
// the type has no assignable int).
func (g *gen) mutateIntOnly(root string, t *typ) bool {
	if g.tryMutate("int", root, t, false) {
		g.count("mut:int")
		return true
	}
	return false
}

func (g *gen) tryMutate(form, root string, t *typ, rootStatic bool) bool {
	switch form {
	case "int":
		p, ok := g.pickUnder(root, t, rootStatic, func(sc schema) bool { return sc.end.k == kInt && sc.assignable })
		if !ok {
			return false
		}
		g.guarded(p.wguards(), func() {
			switch g.uni(4, "intform") {
			case 0, 1:
				g.w.line("%s = %d", p.expr, g.rng(100, 999, "v"))
			case 2:
				g.w.line("%s++", p.expr)
			default:
				g.w.line("%s += %d", p.expr, g.rng(1000, 1009, "v"))
			}
		})
		return true
	case "lit":
		p, ok := g.pickUnder(root, t, rootStatic, func(sc schema) bool { return sc.end.k != kInt && sc.assignable && len(sc.steps) > 0 })
		if !ok {
			return false
		}
		g.wrote(p)
		path := ""
		if p.static {
			path = p.expr
		}
		var l string
		switch {
		case p.t.k == kSlice && g.chance(25):
			n := g.rng(0, 3, "ml")
			c := n + g.rng(0, 3, "mc")
			l = fmt.Sprintf("make(%s, %d, %d)", p.t.str, n, c)
			if path != "" {
				g.shadow[path] = &slen{n, c}
			}
			g.count("mut:make")
		case p.t.k == kMap && g.chance(25):
			l = fmt.Sprintf("make(%s)", p.t.str)
			if path != "" {
				g.keys[path] = map[int]bool{}
			}
			g.count("mut:make")
		case p.t.k == kPtr && g.chance(25):
			l = fmt.Sprintf("new(%s)", p.t.elem.str)
			g.count("mut:new")
		case isValueAggregate(p.t) && g.chance(10):
			l = p.t.str + "{}"
			g.count("mut:zero")
		default:
			l = g.lit(p.t, path)
		}
		g.guarded(p.wguards(), func() { g.w.line("%s = %s", p.expr, l) })
		return true
	case "append":
		p, ok := g.pickUnder(root, t, rootStatic, func(sc schema) bool { return sc.end.k == kSlice && sc.assignable })
		if !ok {
			return false
		}
		n := g.rng(1, 3, "nappend")
		var vals []string
		for i := 0; i < n; i++ {
			vals = append(vals, g.lit(p.t.elem, ""))
		}
		g.guarded(p.wguards(), func() { g.appendStmt(p, p.expr, strings.Join(vals, ", "), n) })
		return true
	case "appendslice":
		p, ok := g.pickUnder(root, t, rootStatic, func(sc schema) bool { return sc.end.k == kSlice && sc.assignable })
		if !ok {
			return false
		}
		q, ok := g.pickUnder(root, t, rootStatic, func(sc schema) bool { return sc.end == p.t })
		if !ok {
			return false
		}
		g.guarded(append(p.wguards(), q.guards...), func() {
			gv := g.fresh("g")
			g.w.line("%s := len(%s)+len(%s) > cap(%s)", gv, p.expr, q.expr, p.expr)
			g.w.line("%s = append(%s, %s...)", p.expr, p.expr, q.expr)
			g.clip(gv, p.expr)
		})
		delete(g.shadow, p.expr)
		g.wrote(p)
		return true
	case "reslice", "reslice3":
		p, ok := g.pickUnder(root, t, rootStatic, func(sc schema) bool { return sc.end.k == kSlice && sc.assignable })
		if !ok {
			return false
		}
		sh, known := g.shadow[p.expr]
		hi := 4
		if known {
			hi = sh.c
			if form == "reslice" && g.chance(70) {
				hi = sh.l
			}
		}
		c := hi - g.rng(0, hi, "c")
		b := c - g.rng(0, c, "b")
		a := g.rng(0, b, "a")
		g.wrote(p)
		if form == "reslice" {
			g.guarded(append(p.wguards(), fmt.Sprintf("%d <= cap(%s)", b, p.expr)), func() {
				switch {
				case a == 0 && g.chance(50):
					g.w.line("%s = %s[:%d]", p.expr, p.expr, b)
				default:
					g.w.line("%s = %s[%d:%d]", p.expr, p.expr, a, b)
				}
			})
			if known && p.static && b <= sh.c {
				g.shadow[p.expr] = &slen{b - a, sh.c - a}
			}
		} else {
			g.guarded(append(p.wguards(), fmt.Sprintf("%d <= cap(%s)", c, p.expr)), func() {
				if a == 0 && g.chance(50) {
					g.w.line("%s = %s[:%d:%d]", p.expr, p.expr, b, c)
				} else {
					g.w.line("%s = %s[%d:%d:%d]", p.expr, p.expr, a, b, c)
				}
			})
			if known && p.static && c <= sh.c {
				g.shadow[p.expr] = &slen{b - a, c - a}
			}
		}
		return true
	case "copy":
		p, ok := g.pickUnder(root, t, rootStatic, func(sc schema) bool { return sc.end.k == kSlice })
		if !ok {
			return false
		}
		hi := 3
		if sh, known := g.shadow[p.expr]; known {
			hi = sh.l
		}
		a, b := g.rng(0, hi, "a"), g.rng(0, hi, "b")
		m := a
		if b > m {
			m = b
		}
		g.guarded(append(p.guards, fmt.Sprintf("%d <= len(%s)", m, p.expr)), func() {
			g.w.line("fmt.Println(\"copied\", copy(%s[%d:], %s[%d:]))", p.expr, a, p.expr, b)
		})
		return true
	case "delidiom":
		p, ok := g.pickUnder(root, t, rootStatic, func(sc schema) bool { return sc.end.k == kSlice && sc.assignable })
		if !ok {
			return false
		}
		hi := 3
		sh, known := g.shadow[p.expr]
		if known {
			hi = sh.l
		}
		b := g.rng(0, hi, "b")
		a := b - g.rng(0, b, "a")
		g.guarded(append(p.wguards(), fmt.Sprintf("%d <= len(%s)", b, p.expr)), func() {
			g.w.line("%s = append(%s[:%d], %s[%d:]...)", p.expr, p.expr, a, p.expr, b)
		})
		g.wrote(p)
		if known && p.static && b <= sh.l {
			g.shadow[p.expr] = &slen{sh.l - (b - a), sh.c}
		}
		return true
	case "mapins":
		p, ok := g.pickUnder(root, t, rootStatic, func(sc schema) bool { return sc.end.k == kMap })
		if !ok {
			return false
		}
		k := g.rng(0, mapKeys-1, "k")
		g.guarded(append(p.guards, p.expr+" != nil"), func() {
			g.w.line("%s[%d] = %s", p.expr, k, g.lit(p.t.elem, ""))
		})
		if ks, ok := g.keys[p.expr]; ok && p.static {
			ks[k] = true
		} else {
			g.keys = map[string]map[int]bool{}
		}
		return true
	case "mapdel":
		p, ok := g.pickUnder(root, t, rootStatic, func(sc schema) bool { return sc.end.k == kMap })
		if !ok {
			return false
		}
		k := g.mapKey(p.expr)
		g.guarded(p.guards, func() { g.w.line("delete(%s, %d)", p.expr, k) })
		if ks, ok := g.keys[p.expr]; ok && p.static {
			delete(ks, k)
		} else {
			g.keys = map[string]map[int]bool{}
		}
		return true
	case "maprmw":
		p, ok := g.pickUnder(root, t, rootStatic, func(sc schema) bool { return sc.end.k == kMap && sc.end.elem.k != kMap })
		if !ok {
			return false
		}
		k := g.mapKey(p.expr)
		if ks, ok := g.keys[p.expr]; ok && p.static {
			ks[k] = true
		} else {
			g.keys = map[string]map[int]bool{}
		}
		g.guarded(append(p.guards, p.expr+" != nil"), func() {
			e := g.fresh("e")
			g.w.line("%s := %s[%d]", e, p.expr, k)
			g.mutateInt(e, p.t.elem, false)
			g.w.line("%s[%d] = %s", p.expr, k, e)
		})
		return true
	}
	return false
}

// appendStmt emits dst = append(src, vals) followed by a clip of dst to its
// length when the append had to grow (the capacity after growth is not
// defined by the language).
func (g *gen) appendStmt(dst place, src, vals string, n int) {
	gv := g.fresh("g")
	g.w.line("%s := len(%s)+%d > cap(%s)", gv, src, n, src)
	g.w.line("%s = append(%s, %s)", dst.expr, src, vals)
	g.clip(gv, dst.expr)
	sh, known := g.shadow[src]
	g.wrote(dst)
	if known && dst.static && src == dst.expr {
		if sh.l+n <= sh.c {
			g.shadow[dst.expr] = &slen{sh.l + n, sh.c}
		} else {
			g.shadow[dst.expr] = &slen{sh.l + n, sh.l + n}
		}
	}
}

func (g *gen) clip(flag, expr string) {
	g.w.line("if %s {", flag)
	g.w.ind++
	g.w.line("%s = %s[:len(%s):len(%s)]", expr, expr, expr, expr)
	g.w.ind--
	g.w.line("}")
}

// ---------------------------------------------------------------------------
// helper functions

// inFunc runs body with the writer redirected to a new top-level function.
func (g *gen) inFunc(header string, body func()) {
	saveW, saveNest := g.w, g.nest
	fw := &writer{}
	g.w, g.nest = fw, 0
	fw.line("%s {", header)
	fw.ind++
	body()
	fw.ind--
	fw.line("}")
	g.funcs = append(g.funcs, fw.b.String())
	g.w, g.nest = saveW, saveNest
}

// ---------------------------------------------------------------------------
// operations

type opFn func(g *gen) bool

var opTable = []struct {
	name   string
	weight int
	fn     opFn
}{
	{"mut", 14, (*gen).opMut},
	{"assign", 10, (*gen).opAssign},
	{"callmut", 7, (*gen).opCallMut},
	{"callptr", 3, (*gen).opCallPtr},
	{"callret", 6, (*gen).opCallRet},
	{"range", 8, (*gen).opRange},
	{"closure", 6, (*gen).opClosure},
	{"closure-later", 3, (*gen).opClosureLater},
	{"call-later", 3, (*gen).opCallLater},
	{"localcopy", 8, (*gen).opLocalCopy},
	{"addr", 8, (*gen).opAddr},
	{"addr-local", 4, (*gen).opAddrLocal},
	{"swap", 5, (*gen).opSwap},
	{"swap-places", 4, (*gen).opSwapPlaces},
	{"index-assign", 5, (*gen).opIndexAssign},
	{"slice-and-elem", 2, (*gen).opSliceAndElem},
	{"lencap", 3, (*gen).opLenCap},
	{"lookup", 5, (*gen).opLookup},
	{"ptrelem-append", 5, (*gen).opPtrElemAppend},
	{"alias-append", 7, (*gen).opAliasAppend},
	{"two-appends", 3, (*gen).opTwoAppends},
	{"subslice-assign", 5, (*gen).opSubsliceAssign},
}

func composite(sc schema) bool { return sc.end.k != kInt }

func (g *gen) opMut() bool {
	v := g.pool[g.uni(len(g.pool), "var")]
	return g.mutate(v.name, v.t, v.t.k != kPtr) != ""
}

// opAssign: P = Q for two places of the same type.
func (g *gen) opAssign() bool {
	p, ok := g.pickPool(func(sc schema) bool { return composite(sc) && sc.assignable })
	if !ok {
		return false
	}
	cs := g.poolPlaces(func(sc schema) bool { return sc.end == p.t })
	if len(cs) == 0 {
		return false
	}
	for tries := 0; tries < 4; tries++ {
		c := cs[g.uni(len(cs), "src")]
		q := g.inst(c.v.name, c.v.t.k != kPtr, c.sc)
		if q.expr == p.expr {
			continue
		}
		g.wrote(p)
		if p.static && q.static && p.t.k == kSlice {
			if s, ok := g.shadow[q.expr]; ok {
				g.shadow[p.expr] = &slen{s.l, s.c}
			}
		}
		g.guarded(append(p.wguards(), q.guards...), func() { g.w.line("%s = %s", p.expr, q.expr) })
		if isValueAggregate(p.t) {
			g.prog.Flagged[g.step] = "copy-mutate"
			// mutate one side right away so that the pair is complete
			if g.chance(70) {
				side := p
				if g.chance(50) {
					side = q
				}
				if side.addr {
					g.guarded(side.guards, func() { g.mutateInt(side.expr, side.t, false) })
				}
			}
		}
		return true
	}
	return false
}

func (g *gen) pickArg() (place, bool) {
	return g.pickPool(func(sc schema) bool { return composite(sc) })
}

// pickAddrArg picks an addressable composite place (its parts can be updated
// in place).
func (g *gen) pickAddrArg() (place, bool) {
	return g.pickPool(func(sc schema) bool { return composite(sc) && sc.addr })
}

// opCallMut: pass a value to a function that mutates its parameter.
func (g *gen) opCallMut() bool {
	q, ok := g.pickArg()
	if !ok {
		return false
	}
	fn := g.fresh("f")
	g.inFunc(fmt.Sprintf("func %s(x %s)", fn, q.t.str), func() {
		local := g.chance(35)
		if local {
			// a second copy inside the callee
			g.w.line("y := x")
			g.mutateInt("y", q.t, false)
		}
		g.mutateInt("x", q.t, false)
		if g.chance(40) {
			g.mutate("x", q.t, false)
		}
		g.showLine("x", "x", q.t)
		if local {
			g.showLine("y", "y", q.t)
		}
	})
	g.guarded(q.guards, func() { g.w.line("%s(%s)", fn, q.expr) })
	g.wrote(place{t: q.t})
	if isValueAggregate(q.t) {
		g.prog.Flagged[g.step] = "copy-mutate"
	}
	return true
}

// opCallPtr: pass the address of a place.
func (g *gen) opCallPtr() bool {
	q, ok := g.pickPool(func(sc schema) bool { return sc.addr })
	if !ok {
		return false
	}
	fn := g.fresh("f")
	pt := g.ptr(q.t)
	g.inFunc(fmt.Sprintf("func %s(x %s)", fn, pt.str), func() {
		g.mutate("x", pt, false)
		g.showLine("x", "x", pt)
	})
	g.guarded(q.guards, func() { g.w.line("%s(%s)", fn, g.addrOf(q)) })
	g.wrote(place{t: q.t})
	return true
}

// opCallRet: return a (mutated) parameter from a function and store it.
func (g *gen) opCallRet() bool {
	q, ok := g.pickArg()
	if !ok {
		return false
	}
	cs := g.poolPlaces(func(sc schema) bool { return sc.end == q.t && sc.assignable })
	if len(cs) == 0 {
		return false
	}
	c := cs[g.uni(len(cs), "dst")]
	p := g.inst(c.v.name, c.v.t.k != kPtr, c.sc)
	fn := g.fresh("f")
	// a callee that may be called while the operands of the left side are
	// evaluated only updates ints
	mi := func(root string) {
		if p.mapStatic {
			g.mutateIntOnly(root, q.t)
		} else {
			g.mutateInt(root, q.t, false)
		}
	}
	named := g.chance(35)
	hdr := fmt.Sprintf("func %s(x %s) %s", fn, q.t.str, q.t.str)
	if named {
		hdr = fmt.Sprintf("func %s(x %s) (r %s)", fn, q.t.str, q.t.str)
	}
	g.inFunc(hdr, func() {
		if named {
			g.w.line("r = x")
			mi("x")
			if g.chance(50) {
				mi("r")
			}
			g.showLine("x", "x", q.t)
			g.w.line("return")
		} else {
			mi("x")
			g.w.line("return x")
		}
	})
	g.wrote(p)
	g.wrote(place{t: q.t})
	g.guarded(append(p.wguards(), q.guards...), func() {
		// the call may write what the operands of the left side read: keep
		// the call in its own statement unless the target is a fixed location
		if p.static || p.mapStatic {
			g.w.line("%s = %s(%s)", p.expr, fn, q.expr)
		} else {
			r := g.fresh("r")
			g.w.line("%s := %s(%s)", r, fn, q.expr)
			g.guarded(p.wguards(), func() { g.w.line("%s = %s", p.expr, r) })
		}
	})
	if isValueAggregate(q.t) {
		g.prog.Flagged[g.step] = "copy-mutate"
	}
	return true
}

// opRange: range over an array (copy), a slice or a pointer to an array (no
// copy) while the body changes the ranged container.
func (g *gen) opRange() bool {
	p, ok := g.pickPool(func(sc schema) bool {
		t := sc.end
		return (t.k == kArray && sc.addr) || t.k == kSlice || (t.k == kPtr && t.elem.k == kArray)
	})
	if !ok {
		return false
	}
	cont := p.t // container type indexed in the body
	over := p.expr
	guards := p.guards
	form := "slice"
	switch p.t.k {
	case kArray:
		form = "array"
		switch g.uni(6, "rangeform") {
		case 0:
			if !g.off["range-addr-array"] {
				over, form = g.addrOf(p), "array-addr"
			}
		case 1:
			if !g.off["range-array-sliced"] {
				over, form = p.expr+"[:]", "array-sliced"
			}
		}
	case kPtr:
		cont = p.t.elem
		form = "array-ptr"
		guards = append(guards, p.expr+" != nil")
		if g.chance(30) {
			over, form = "*"+p.expr, "array-deref"
		}
	}
	g.count("range:" + form)
	iv, ev := g.fresh("i"), g.fresh("e")
	el := cont.elem
	g.guarded(guards, func() {
		g.w.line("for %s, %s := range %s {", iv, ev, over)
		g.w.ind++
		g.w.line("if %s == 0 {", iv)
		g.w.ind++
		// change an element of the container (a later one mostly)
		n := 3
		if cont.k == kArray {
			n = cont.n
		} else if sh, ok := g.shadow[p.expr]; ok && sh.l > 0 {
			n = sh.l
		}
		j := g.rng(0, n-1, "j")
		if j == 0 && g.chance(70) {
			j = n - 1
		}
		target := fmt.Sprintf("%s[%d]", p.expr, j)
		var tg []string
		if cont.k == kSlice {
			tg = []string{fmt.Sprintf("%d < len(%s)", j, p.expr)}
		}
		g.guarded(tg, func() { g.mutateInt(target, el, false) })
		if p.t.k == kSlice && p.assignable && g.chance(35) {
			// change the header of the ranged slice: the loop keeps the old one
			if g.chance(50) {
				g.appendStmt(p, p.expr, g.lit(el, ""), 1)
			} else {
				g.guarded([]string{fmt.Sprintf("1 <= len(%s)", p.expr)}, func() { g.w.line("%s = %s[:1]", p.expr, p.expr) })
				g.wrote(p)
				delete(g.shadow, p.expr)
			}
		}
		g.w.ind--
		g.w.line("}")
		if el.k != kInt && g.chance(40) {
			// the iteration variable is a copy of the element
			g.mutateInt(ev, el, false)
		}
		g.w.line("fmt.Print(\"r\", %s, \":\")", iv)
		g.show(ev, el, 0)
		g.w.line("fmt.Println()")
		g.w.ind--
		g.w.line("}")
	})
	if form == "array" || form == "array-deref" {
		g.prog.Flagged[g.step] = "copy-mutate"
	}
	return true
}

// opClosure: capture, mutate, call.
func (g *gen) opClosure() bool {
	form := g.uni(3, "closureform")
	q, ok := g.pickArg()
	if form == 0 {
		q, ok = g.pickAddrArg()
	}
	if !ok {
		return false
	}
	c := g.fresh("c")
	switch form {
	case 0:
		// closure over the pool place itself: mutate before and inside
		g.count("closure:direct")
		g.w.line("%s := func() {", c)
		g.w.ind++
		g.nest++
		g.guarded(q.guards, func() {
			g.showLine("in", q.expr, q.t)
			g.mutateInt(q.expr, q.t, false)
		})
		g.nest--
		g.w.ind--
		g.w.line("}")
		g.guarded(q.guards, func() { g.mutateInt(q.expr, q.t, false) })
		g.w.line("%s()", c)
		g.wrote(place{t: q.t})
	case 1:
		// closure over a local copy
		g.count("closure:copy")
		l := g.fresh("l")
		g.guarded(q.guards, func() {
			g.w.line("%s := %s", l, q.expr)
			g.w.line("%s := func() {", c)
			g.w.ind++
			g.showLine("in", l, q.t)
			g.mutateInt(l, q.t, false)
			g.w.ind--
			g.w.line("}")
			g.mutateInt(l, q.t, false)
			if q.addr {
				g.mutateInt(q.expr, q.t, false)
			}
			g.w.line("%s()", c)
			g.showLine(l, l, q.t)
		})
		g.wrote(place{t: q.t})
		if isValueAggregate(q.t) {
			g.prog.Flagged[g.step] = "copy-mutate"
		}
	default:
		// function literal with a parameter, called at once
		g.count("closure:param")
		g.guarded(q.guards, func() {
			g.w.line("func(x %s) {", q.t.str)
			g.w.ind++
			g.mutateInt("x", q.t, false)
			g.showLine("x", "x", q.t)
			g.w.ind--
			g.w.line("}(%s)", q.expr)
		})
		g.wrote(place{t: q.t})
		if isValueAggregate(q.t) {
			g.prog.Flagged[g.step] = "copy-mutate"
		}
	}
	return true
}

// opClosureLater stores a closure over a local copy; it is called by a later
// step (opCallLater).
func (g *gen) opClosureLater() bool {
	q, ok := g.pickArg()
	if !ok {
		return false
	}
	l := g.fresh("l")
	g.guarded(q.guards, func() {
		g.w.line("%s := %s", l, q.expr)
		g.w.line("later = append(later, func() {")
		g.w.ind++
		g.mutateInt(l, q.t, false)
		g.showLine(l, l, q.t)
		g.w.ind--
		g.w.line("})")
		g.mutateInt(l, q.t, false)
	})
	g.wrote(place{t: q.t})
	g.nLater++
	if isValueAggregate(q.t) {
		g.prog.Flagged[g.step] = "copy-mutate"
	}
	return true
}

func (g *gen) opCallLater() bool {
	if g.nLater == 0 {
		return false
	}
	k := g.uni(g.nLater, "later")
	g.guarded([]string{fmt.Sprintf("%d < len(later)", k)}, func() { g.w.line("later[%d]()", k) })
	g.forget()
	return true
}

// opLocalCopy: c := P; change one of them; print the copy.
func (g *gen) opLocalCopy() bool {
	q, ok := g.pickArg()
	if !ok {
		return false
	}
	c := g.fresh("c")
	g.guarded(q.guards, func() {
		g.w.line("%s := %s", c, q.expr)
		if q.addr && g.chance(50) {
			g.mutateInt(q.expr, q.t, false)
		} else {
			g.mutateInt(c, q.t, false)
		}
		if g.chance(30) {
			g.mutate(c, q.t, false)
		}
		g.showLine(c, c, q.t)
	})
	g.wrote(place{t: q.t})
	if isValueAggregate(q.t) {
		g.prog.Flagged[g.step] = "copy-mutate"
	}
	return true
}

// opAddr: p = &P for a pool pointer variable (or pointer-typed place).
func (g *gen) opAddr() bool {
	p, ok := g.pickPool(func(sc schema) bool { return sc.end.k == kPtr && sc.assignable })
	if !ok {
		return false
	}
	cs := g.poolPlaces(func(sc schema) bool { return sc.end == p.t.elem && sc.addr })
	if len(cs) == 0 {
		return false
	}
	c := cs[g.uni(len(cs), "target")]
	q := g.inst(c.v.name, c.v.t.k != kPtr, c.sc)
	if strings.HasPrefix(q.expr, p.expr) || strings.HasPrefix(q.expr, "(*"+p.expr) {
		return false
	}
	g.guarded(append(p.wguards(), q.guards...), func() { g.w.line("%s = %s", p.expr, g.addrOf(q)) })
	g.forget()
	return true
}

// opAddrLocal: q := &P; update through q; print *q.
func (g *gen) opAddrLocal() bool {
	p, ok := g.pickPool(func(sc schema) bool { return sc.addr && composite(sc) })
	if !ok {
		return false
	}
	q := g.fresh("q")
	pt := g.ptr(p.t)
	g.guarded(p.guards, func() {
		g.w.line("%s := %s", q, g.addrOf(p))
		if g.chance(50) {
			g.mutateInt(p.expr, p.t, false)
		}
		g.mutate(q, pt, false)
		g.showLine(q, q, pt)
	})
	g.wrote(place{t: p.t})
	return true
}

// opSwap: a[i], a[j] = a[j], a[i]
func (g *gen) opSwap() bool {
	p, ok := g.pickPool(func(sc schema) bool {
		return (sc.end.k == kArray && sc.addr) || sc.end.k == kSlice || (sc.end.k == kPtr && sc.end.elem.k == kArray)
	})
	if !ok {
		return false
	}
	n := 3
	guards := p.guards
	var i, j int
	switch p.t.k {
	case kArray:
		n = p.t.n
	case kPtr:
		n = p.t.elem.n
		guards = append(guards, p.expr+" != nil")
	default:
		if sh, ok := g.shadow[p.expr]; ok && sh.l > 0 {
			n = sh.l
		}
	}
	i, j = g.rng(0, n-1, "i"), g.rng(0, n-1, "j")
	if p.t.k == kSlice {
		guards = append(guards, fmt.Sprintf("%d < len(%s)", i, p.expr), fmt.Sprintf("%d < len(%s)", j, p.expr))
	}
	g.guarded(guards, func() {
		if g.chance(25) {
			k := g.rng(0, n-1, "k")
			var kg []string
			if p.t.k == kSlice {
				kg = []string{fmt.Sprintf("%d < len(%s)", k, p.expr)}
			}
			g.guarded(kg, func() {
				g.w.line("%s[%d], %s[%d], %s[%d] = %s[%d], %s[%d], %s[%d]", p.expr, i, p.expr, j, p.expr, k, p.expr, j, p.expr, k, p.expr, i)
			})
			return
		}
		g.w.line("%s[%d], %s[%d] = %s[%d], %s[%d]", p.expr, i, p.expr, j, p.expr, j, p.expr, i)
	})
	elem := p.t.elem
	if p.t.k == kPtr {
		elem = p.t.elem.elem
	}
	g.wrote(place{t: elem})
	return true
}

// opSwapPlaces: P, Q = Q, P for two assignable places of one type.
func (g *gen) opSwapPlaces() bool {
	p, ok := g.pickPool(func(sc schema) bool { return sc.assignable })
	if !ok {
		return false
	}
	cs := g.poolPlaces(func(sc schema) bool { return sc.end == p.t && sc.assignable })
	if len(cs) < 2 {
		return false
	}
	c := cs[g.uni(len(cs), "other")]
	q := g.inst(c.v.name, c.v.t.k != kPtr, c.sc)
	if q.expr == p.expr {
		return false
	}
	g.wrote(p)
	g.wrote(q)
	g.guarded(append(p.wguards(), q.wguards()...), func() { g.w.line("%s, %s = %s, %s", p.expr, q.expr, q.expr, p.expr) })
	return true
}

// opIndexAssign: i, a[i] = c, v and a[i], i = v, c (the index operand is
// evaluated before any assignment happens).
func (g *gen) opIndexAssign() bool {
	p, ok := g.pickPool(func(sc schema) bool {
		return (sc.end.k == kArray && sc.addr) || sc.end.k == kSlice
	})
	if !ok {
		return false
	}
	n := 3
	if p.t.k == kArray {
		n = p.t.n
	} else if sh, ok := g.shadow[p.expr]; ok && sh.l > 0 {
		n = sh.l
	}
	el := p.t.elem
	// the index variable: a fresh local or an int place of the pool
	useField := g.chance(40)
	var ip place
	if useField {
		var ok bool
		ip, ok = g.pickPool(func(sc schema) bool { return sc.end.k == kInt && sc.assignable && sc.static })
		if !ok {
			useField = false
		}
	}
	old, nw := g.rng(0, n-1, "old"), g.rng(0, n-1, "new")
	val := g.lit(el, "")
	g.guarded(p.guards, func() {
		iv := ip.expr
		if !useField {
			iv = g.fresh("i")
			g.w.line("%s := %d", iv, old)
		} else {
			g.guarded(ip.wguards(), func() { g.w.line("%s = %d", iv, old) })
		}
		guards := []string{}
		if useField {
			guards = append(guards, ip.wguards()...)
			guards = append(guards, fmt.Sprintf("%s >= 0", iv))
		}
		if p.t.k == kSlice {
			guards = append(guards, fmt.Sprintf("%s < len(%s)", iv, p.expr))
		} else if useField {
			guards = append(guards, fmt.Sprintf("%s < %d", iv, n))
		}
		g.guarded(guards, func() {
			if g.chance(50) {
				g.w.line("%s, %s[%s] = %d, %s", iv, p.expr, iv, nw, val)
			} else {
				g.w.line("%s[%s], %s = %s, %d", p.expr, iv, iv, val, nw)
			}
		})
		g.w.line("fmt.Println(\"i\", %s)", iv)
	})
	g.wrote(place{t: el})
	return true
}

// opSliceAndElem: S, S[i] = T, v (the operand S of the index expression is
// evaluated before S is assigned).
func (g *gen) opSliceAndElem() bool {
	p, ok := g.pickPool(func(sc schema) bool { return sc.end.k == kSlice && sc.assignable })
	if !ok {
		return false
	}
	cs := g.poolPlaces(func(sc schema) bool { return sc.end == p.t })
	c := cs[g.uni(len(cs), "src")]
	q := g.inst(c.v.name, c.v.t.k != kPtr, c.sc)
	if q.expr == p.expr {
		return false
	}
	i := g.sliceIndex(p.expr)
	val := g.lit(p.t.elem, "")
	g.wrote(p)
	delete(g.shadow, p.expr)
	g.guarded(append(append(p.wguards(), q.guards...), fmt.Sprintf("%d < len(%s)", i, p.expr)), func() {
		if g.chance(50) {
			g.w.line("%s, %s[%d] = %s, %s", p.expr, p.expr, i, q.expr, val)
		} else {
			g.w.line("%s[%d], %s = %s, %s", p.expr, i, p.expr, val, q.expr)
		}
	})
	return true
}

func (g *gen) opLenCap() bool {
	p, ok := g.pickPool(func(sc schema) bool {
		k := sc.end.k
		return k == kSlice || k == kMap || k == kArray || (k == kPtr && sc.end.elem.k == kArray)
	})
	if !ok {
		return false
	}
	guards := p.guards
	if p.t.k == kPtr && g.off["len-of-nil-array-pointer"] {
		guards = append(guards, p.expr+" != nil")
	}
	g.guarded(guards, func() {
		switch p.t.k {
		case kMap:
			g.w.line("fmt.Println(\"len\", len(%s))", p.expr)
		default:
			g.w.line("fmt.Println(\"len\", len(%s), \"cap\", cap(%s))", p.expr, p.expr)
		}
	})
	return true
}

// opLookup: map lookup, comma-ok, mutate the looked-up copy.
func (g *gen) opLookup() bool {
	p, ok := g.pickPool(func(sc schema) bool { return sc.end.k == kMap })
	if !ok {
		return false
	}
	k := g.mapKey(p.expr)
	e := g.fresh("e")
	g.guarded(p.guards, func() {
		if g.chance(60) {
			okv := g.fresh("ok")
			g.w.line("%s, %s := %s[%d]", e, okv, p.expr, k)
			g.w.line("fmt.Println(\"ok\", %s)", okv)
		} else {
			g.w.line("%s := %s[%d]", e, p.expr, k)
		}
		if g.chance(60) {
			g.mutateInt(e, p.t.elem, false)
		}
		g.showLine(e, e, p.t.elem)
	})
	g.wrote(place{t: p.t.elem})
	if isValueAggregate(p.t.elem) {
		g.prog.Flagged[g.step] = "copy-mutate"
	}
	return true
}

// opPtrElemAppend: q := &s[i]; s = append(s, …) (may reallocate); update
// s[i] and *q.
func (g *gen) opPtrElemAppend() bool {
	p, ok := g.pickPool(func(sc schema) bool { return sc.end.k == kSlice && sc.assignable })
	if !ok {
		return false
	}
	i := g.sliceIndex(p.expr)
	el := p.t.elem
	q := g.fresh("q")
	pt := g.ptr(el)
	n := g.rng(1, 2, "n")
	var vals []string
	for k := 0; k < n; k++ {
		vals = append(vals, g.lit(el, ""))
	}
	g.guarded(append(p.wguards(), fmt.Sprintf("%d < len(%s)", i, p.expr)), func() {
		g.w.line("%s := &%s[%d]", q, p.expr, i)
		g.appendStmt(p, p.expr, strings.Join(vals, ", "), n)
		g.mutateInt(fmt.Sprintf("%s[%d]", p.expr, i), el, false)
		g.showLine(q, q, pt)
		g.mutateInt(q, pt, false)
		g.showLine(q, q, pt)
	})
	return true
}

// opAliasAppend: t := s[a:b] (b < len(s)); t = append(t, v) writes into s.
func (g *gen) opAliasAppend() bool {
	p, ok := g.pickPool(func(sc schema) bool { return sc.end.k == kSlice })
	if !ok {
		return false
	}
	n := 3
	if sh, ok := g.shadow[p.expr]; ok && sh.l > 0 {
		n = sh.l
	}
	b := g.rng(0, n-1, "b")
	a := g.rng(0, b, "a")
	tv := g.fresh("t")
	tp := place{expr: tv, t: p.t}
	g.guarded(append(p.guards, fmt.Sprintf("%d < len(%s)", b, p.expr)), func() {
		if a == 0 && g.chance(50) {
			g.w.line("%s := %s[:%d]", tv, p.expr, b)
		} else {
			g.w.line("%s := %s[%d:%d]", tv, p.expr, a, b)
		}
		g.appendStmt(tp, tv, g.lit(p.t.elem, ""), 1)
		g.showLine(tv, tv, p.t)
		if g.chance(50) {
			g.showLine("src", p.expr, p.t)
		}
	})
	g.prog.Flagged[g.step] = "alias-append"
	return true
}

// opTwoAppends: t := append(s, x); u := append(s, y) share the spare capacity
// of s, if there is any.
func (g *gen) opTwoAppends() bool {
	p, ok := g.pickPool(func(sc schema) bool { return sc.end.k == kSlice })
	if !ok {
		return false
	}
	tv, uv := g.fresh("t"), g.fresh("u")
	g.guarded(p.guards, func() {
		g.w.line("var %s, %s %s", tv, uv, p.t.str)
		g.appendStmt(place{expr: tv, t: p.t}, p.expr, g.lit(p.t.elem, ""), 1)
		g.appendStmt(place{expr: uv, t: p.t}, p.expr, g.lit(p.t.elem, ""), 1)
		g.showLine(tv, tv, p.t)
		g.showLine(uv, uv, p.t)
	})
	return true
}

// opSubsliceAssign: P = Q[a:b] or Q[a:b:c] for two slice places (pool-level
// aliasing that later appends act on).
func (g *gen) opSubsliceAssign() bool {
	p, ok := g.pickPool(func(sc schema) bool { return sc.end.k == kSlice && sc.assignable })
	if !ok {
		return false
	}
	cs := g.poolPlaces(func(sc schema) bool {
		return sc.end == p.t || (sc.addr && sc.end.k == kArray && sc.end.elem == p.t.elem) || (sc.end.k == kPtr && sc.end.elem.k == kArray && sc.end.elem.elem == p.t.elem)
	})
	c := cs[g.uni(len(cs), "src")]
	q := g.inst(c.v.name, c.v.t.k != kPtr, c.sc)
	hi, l := 3, 3
	known := false
	qguards := q.guards
	switch q.t.k {
	case kArray:
		hi, l, known = q.t.n, q.t.n, true
	case kPtr:
		hi, l, known = q.t.elem.n, q.t.elem.n, true
		qguards = append(qguards, q.expr+" != nil")
	default:
		if sh, ok := g.shadow[q.expr]; ok {
			hi, l, known = sh.c, sh.l, true
		}
	}
	three := g.chance(40)
	if !three || g.chance(50) {
		hi = l
	}
	cc := hi - g.rng(0, hi, "c")
	b := cc - g.rng(0, cc, "b")
	a := g.rng(0, b, "a")
	g.wrote(p)
	delete(g.shadow, p.expr)
	if three {
		g.guarded(append(append(p.wguards(), qguards...), fmt.Sprintf("%d <= cap(%s)", cc, q.expr)), func() {
			if a == 0 && g.chance(50) {
				g.w.line("%s = %s[:%d:%d]", p.expr, q.expr, b, cc)
			} else {
				g.w.line("%s = %s[%d:%d:%d]", p.expr, q.expr, a, b, cc)
			}
		})
		if known && p.static {
			g.shadow[p.expr] = &slen{b - a, cc - a}
		}
	} else {
		g.guarded(append(append(p.wguards(), qguards...), fmt.Sprintf("%d <= cap(%s)", b, q.expr)), func() {
			g.w.line("%s = %s[%d:%d]", p.expr, q.expr, a, b)
		})
		if known && p.static && q.t.k != kSlice {
			g.shadow[p.expr] = &slen{b - a, hi - a}
		}
	}
	return true
}

// ---------------------------------------------------------------------------
// program assembly

func (g *gen) dumpBody() {
	g.w.line("fmt.Println(\"step\", step)")
	for _, v := range g.pool {
		g.showLine(v.name, v.name, v.t)
	}
}

// Generate draws one program.
func Generate(t *rapid.T, off map[string]bool) *Program {
	g := &gen{t: t, off: off, types: map[string]*typ{}, shadow: map[string]*slen{}, keys: map[string]map[int]bool{}, schemas: map[*typ][]schema{},
		prog: &Program{Ops: map[string]int{}, Flagged: map[int]string{}, Guarded: map[int]bool{}}}
	g.mkTypes()
	g.mkPool()
	g.global = g.chance(50)
	if g.off["local-pool"] {
		g.global = true
	}

	// initial values
	inits := make([]string, len(g.pool))
	for i, v := range g.pool {
		path := v.name
		if v.t.k == kPtr {
			path = ""
		}
		inits[i] = g.lit(v.t, path)
	}

	mw := &writer{ind: 1}
	g.w, g.mainW = mw, mw
	nsteps := 10 + g.uni(51, "nsteps")
	total := 0
	for _, o := range opTable {
		total += o.weight
	}
	mw.line("dump(0)")
	for g.step = 1; g.step <= nsteps; g.step++ {
		done := false
		for tries := 0; tries < 8 && !done; tries++ {
			r := g.uni(total, "op")
			for _, o := range opTable {
				if r < o.weight {
					if g.off["op:"+o.name] {
						break
					}
					// an operation that does not apply emits nothing
					mark := mw.b.Len()
					mw.line("// step %d: %s", g.step, o.name)
					if o.fn(g) {
						g.count("op:" + o.name)
						done = true
					} else {
						s := mw.b.String()[:mark]
						mw.b.Reset()
						mw.b.WriteString(s)
					}
					break
				}
				r -= o.weight
			}
		}
		if !done {
			mw.line("// step %d: none", g.step)
		}
		mw.line("dump(%d)", g.step)
	}
	g.prog.Steps = nsteps

	var b strings.Builder
	if g.needHash {
		b.WriteString("package main\n\nimport (\n\t\"crypto/md5\"\n\t\"crypto/sha256\"\n\t\"fmt\"\n)\n\nvar _, _ = md5.Sum, sha256.Sum256\n\n")
	} else {
		b.WriteString("package main\n\nimport \"fmt\"\n\n")
	}
	for _, s := range g.structs {
		fmt.Fprintf(&b, "type %s struct {\n", s.str)
		for _, f := range s.fields {
			fmt.Fprintf(&b, "\t%s %s\n", f.name, f.t.str)
		}
		b.WriteString("}\n\n")
	}
	for _, n := range g.named {
		fmt.Fprintf(&b, "type %s %s\n\n", n.str, n.under.str)
	}
	b.WriteString("func pint(v int) *int { return &v }\n\n")
	if g.global {
		for i, v := range g.pool {
			if i%2 == 0 {
				fmt.Fprintf(&b, "var %s = %s\n", v.name, inits[i])
			} else {
				fmt.Fprintf(&b, "var %s %s = %s\n", v.name, v.t.str, inits[i])
			}
		}
		b.WriteString("\nvar later []func()\n\n")
		dw := &writer{}
		g.w = dw
		dw.line("func dump(step int) {")
		dw.ind++
		g.dumpBody()
		dw.ind--
		dw.line("}")
		b.WriteString(dw.b.String())
		b.WriteString("\n")
	}
	for _, f := range g.funcs {
		b.WriteString(f)
		b.WriteString("\n")
	}
	b.WriteString("func main() {\n")
	if !g.global {
		for i, v := range g.pool {
			if i%2 == 0 {
				fmt.Fprintf(&b, "\t%s := %s\n", v.name, inits[i])
			} else {
				fmt.Fprintf(&b, "\tvar %s %s = %s\n", v.name, v.t.str, inits[i])
			}
		}
		b.WriteString("\tvar later []func()\n")
		dw := &writer{ind: 1}
		g.w = dw
		dw.line("dump := func(step int) {")
		dw.ind++
		g.dumpBody()
		dw.ind--
		dw.line("}")
		b.WriteString(dw.b.String())
	}
	b.WriteString(mw.b.String())
	b.WriteString("\t_ = later\n")
	b.WriteString("}\n")
	g.prog.Src = b.String()
	return g.prog
}
