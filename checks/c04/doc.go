// Package c04 holds the check of property C04.
package c04
