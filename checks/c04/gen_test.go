package c04

import (
	"os"
	"testing"

	"pgregory.net/rapid"

	"verif/internal/progen"
)

// TestGeneratorWellTyped: every generated program type-checks.
func TestGeneratorWellTyped(t *testing.T) {
	n := 0
	rapid.Check(t, func(rt *rapid.T) {
		p := Generate(rt, map[string]bool{})
		n++
		if dir := os.Getenv("C04_SAMPLE_DIR"); dir != "" && n <= 5 {
			_ = os.WriteFile(dir+"/sample"+string(rune('0'+n))+".go", []byte(p.Src), 0o644)
		}
		if e := progen.TypeCheck(p.Src); e != "" {
			if dir := os.Getenv("C04_SAMPLE_DIR"); dir != "" {
				_ = os.WriteFile(dir+"/illtyped.go", []byte(p.Src), 0o644)
			}
			rt.Fatalf("ill-typed: %s", e)
		}
	})
}
