package c04

import (
	"fmt"
	"strings"
)

// ---------------------------------------------------------------------------
// type model of the generated programs

type kind int

const (
	kInt kind = iota
	kArray
	kSlice
	kMap // key type is always int
	kPtr
	kStruct
)

type field struct {
	name string
	t    *typ
}

type typ struct {
	k      kind
	elem   *typ
	n      int // array length
	fields []field
	str    string // Go type expression; identity key
	under  *typ   // named non-struct types: the unnamed underlying type
	simple int8   // cache: 0 unknown, 1 yes, 2 no
}

// mapKeys bounds the keys used in maps (0..mapKeys-1) so that a map can be
// printed in key order without sorting or ranging over it.
const mapKeys = 5

func (g *gen) intern(t *typ) *typ {
	if o, ok := g.types[t.str]; ok {
		return o
	}
	g.types[t.str] = t
	return t
}

func (g *gen) intT() *typ { return g.intern(&typ{k: kInt, str: "int"}) }
func (g *gen) arr(n int, e *typ) *typ {
	return g.intern(&typ{k: kArray, n: n, elem: e, str: fmt.Sprintf("[%d]%s", n, e.str)})
}
func (g *gen) slice(e *typ) *typ { return g.intern(&typ{k: kSlice, elem: e, str: "[]" + e.str}) }
func (g *gen) mapOf(e *typ) *typ { return g.intern(&typ{k: kMap, elem: e, str: "map[int]" + e.str}) }
func (g *gen) ptr(e *typ) *typ   { return g.intern(&typ{k: kPtr, elem: e, str: "*" + e.str}) }

// named declares `type name under`.
func (g *gen) namedType(name string, under *typ) *typ {
	t := g.intern(&typ{k: under.k, elem: under.elem, n: under.n, str: name, under: under})
	g.named = append(g.named, t)
	return t
}

// isSimple: the value holds no slice and no pointer anywhere, so fmt's %v
// prints it completely and deterministically (maps print in key order).
func isSimple(t *typ) bool {
	if t.simple != 0 {
		return t.simple == 1
	}
	r := true
	switch t.k {
	case kSlice, kPtr:
		r = false
	case kArray, kMap:
		r = isSimple(t.elem)
	case kStruct:
		for _, f := range t.fields {
			if !isSimple(f.t) {
				r = false
			}
		}
	}
	if r {
		t.simple = 1
	} else {
		t.simple = 2
	}
	return r
}

// isValueAggregate: array or struct (copied on assignment).
func isValueAggregate(t *typ) bool { return t.k == kArray || t.k == kStruct }

// hasSlice: a slice header occurs in the value itself or behind a reference.
func hasSlice(t *typ) bool {
	switch t.k {
	case kSlice:
		return true
	case kArray, kMap, kPtr:
		return hasSlice(t.elem)
	case kStruct:
		for _, f := range t.fields {
			if hasSlice(f.t) {
				return true
			}
		}
	}
	return false
}

// ---------------------------------------------------------------------------
// source writer

type writer struct {
	b   strings.Builder
	ind int
}

func (w *writer) line(format string, a ...any) {
	for i := 0; i < w.ind; i++ {
		w.b.WriteByte('\t')
	}
	if len(a) == 0 {
		w.b.WriteString(format)
	} else {
		fmt.Fprintf(&w.b, format, a...)
	}
	w.b.WriteByte('\n')
}

// ---------------------------------------------------------------------------
// places

type stepKind int

const (
	sField stepKind = iota
	sArr
	sSlice
	sDeref
	sMap
)

type step struct {
	k     stepKind
	field string
	n     int // array length for sArr
}

// schema is a path through a type, without concrete indexes.
type schema struct {
	steps      []step
	end        *typ
	addr       bool // addressable (given an addressable root)
	assignable bool
	static     bool // only fields and constant array indexes (no operand is evaluated)
}

const maxDepth = 4

func (g *gen) schemasOf(t *typ) []schema {
	if s, ok := g.schemas[t]; ok {
		return s
	}
	var out []schema
	var rec func(t *typ, steps []step, addr, assignable, static bool, depth int)
	rec = func(t *typ, steps []step, addr, assignable, static bool, depth int) {
		out = append(out, schema{steps: append([]step(nil), steps...), end: t, addr: addr, assignable: assignable, static: static})
		if depth == maxDepth {
			return
		}
		switch t.k {
		case kStruct:
			for _, f := range t.fields {
				rec(f.t, append(steps, step{k: sField, field: f.name}), addr, addr, static, depth+1)
			}
		case kArray:
			rec(t.elem, append(steps, step{k: sArr, n: t.n}), addr, addr, static, depth+1)
		case kSlice:
			rec(t.elem, append(steps, step{k: sSlice}), true, true, false, depth+1)
		case kPtr:
			rec(t.elem, append(steps, step{k: sDeref}), true, true, false, depth+1)
		case kMap:
			rec(t.elem, append(steps, step{k: sMap}), false, true, false, depth+1)
		}
	}
	rec(t, nil, true, true, true, 0)
	g.schemas[t] = out
	return out
}

// place is a concrete operand expression with the conditions under which
// evaluating it cannot panic.
type place struct {
	expr       string
	t          *typ
	guards     []string
	addr       bool
	assignable bool
	static     bool   // root is a pool variable and no operand is evaluated
	lastMap    string // when the last step indexes a map: the map expression
	root       string
	// explicit is the spelling of expr with the last step's pointer
	// dereference written out, when the last step indexes an array through a
	// pointer implicitly (p[i] for (*p)[i]); "" otherwise.
	explicit string
	// derefIndexInside: an index step is applied to a dereferenced pointer
	// (spelled (*p)[i] or p[i]) and a later step is not an index.
	derefIndexInside bool
	derefIndex       bool // an index step is applied to a dereferenced pointer
	// mapStatic: the last step indexes a map whose own place is static (a
	// fixed location: no operand other than the constant key is evaluated).
	mapStatic bool
}

// addrOf renders &place.
func (g *gen) addrOf(p place) string {
	if p.explicit != "" && g.off["addr-implicit-deref-index"] {
		return "&" + p.explicit
	}
	return "&" + p.expr
}

// wguards are the conditions for assigning to the place.
func (p place) wguards() []string {
	if p.lastMap != "" {
		return append(append([]string(nil), p.guards...), p.lastMap+" != nil")
	}
	return p.guards
}

// inst turns a schema into a place below root; indexes are drawn.
func (g *gen) inst(root string, rootStatic bool, sc schema) place {
	p := place{expr: root, t: sc.end, addr: sc.addr, assignable: sc.assignable, static: sc.static && rootStatic, root: root}
	pending := "" // pointer expression whose explicit dereference is the current expr
	ptrIdx := false
	staticSoFar := rootStatic
	for _, st := range sc.steps {
		base := p.expr
		p.explicit = ""
		if pending != "" && (st.k == sArr || st.k == sSlice || st.k == sMap) {
			ptrIdx = true
		}
		if ptrIdx {
			p.derefIndex = true
			p.derefIndexInside = st.k == sField || st.k == sDeref
		}
		switch st.k {
		case sField:
			if pending != "" && g.chance(50) {
				base = pending // implicit dereference in selectors
			}
			p.expr = base + "." + st.field
			pending = ""
		case sArr:
			ai := g.rng(0, st.n-1, "ai")
			if pending != "" && g.chance(50) {
				p.explicit = fmt.Sprintf("%s[%d]", base, ai)
				base = pending // implicit dereference of pointers to arrays
			}
			p.expr = fmt.Sprintf("%s[%d]", base, ai)
			pending = ""
		case sSlice:
			i := g.sliceIndex(base)
			p.guards = append(p.guards, fmt.Sprintf("%d < len(%s)", i, base))
			p.expr = fmt.Sprintf("%s[%d]", base, i)
			pending = ""
		case sDeref:
			p.guards = append(p.guards, base+" != nil")
			pending = base
			p.expr = "(*" + base + ")"
		case sMap:
			p.expr = fmt.Sprintf("%s[%d]", base, g.mapKey(base))
			pending = ""
		}
		p.lastMap, p.mapStatic = "", false
		if st.k == sMap {
			p.lastMap, p.mapStatic = base, staticSoFar
		}
		if st.k != sField && st.k != sArr {
			staticSoFar = false
		}
	}
	return p
}

// sliceIndex draws an index into the slice named by expr, using the shadow
// length when it is known.
func (g *gen) sliceIndex(expr string) int {
	if s, ok := g.shadow[expr]; ok && s.l > 0 {
		if g.chance(92) {
			return g.rng(0, s.l-1, "si")
		}
		return g.rng(s.l, s.l+1, "si")
	}
	return g.rng(0, 1, "si")
}

// mapKey draws a key for the map named by expr, mostly one that is present
// when the shadow knows the key set.
func (g *gen) mapKey(expr string) int {
	if ks, ok := g.keys[expr]; ok && len(ks) > 0 && g.chance(80) {
		var l []int
		for k := 0; k < mapKeys; k++ {
			if ks[k] {
				l = append(l, k)
			}
		}
		return l[g.uni(len(l), "mk")]
	}
	return g.rng(0, mapKeys-1, "mk")
}

// ---------------------------------------------------------------------------
// literals

// lit renders a full literal of type t. path is the static place the literal
// is stored to ("" when unknown): slice lengths are recorded in the shadow.
func (g *gen) lit(t *typ, path string) string {
	switch t.k {
	case kInt:
		return fmt.Sprint(g.rng(0, 99, "v"))
	case kArray:
		var el []string
		for i := 0; i < t.n; i++ {
			sub := ""
			if path != "" {
				sub = fmt.Sprintf("%s[%d]", path, i)
			}
			el = append(el, g.lit(t.elem, sub))
		}
		return t.str + "{" + strings.Join(el, ", ") + "}"
	case kSlice:
		n := g.rng(2, 5, "sl")
		var el []string
		for i := 0; i < n; i++ {
			el = append(el, g.lit(t.elem, ""))
		}
		s := t.str + "{" + strings.Join(el, ", ") + "}"
		l, c := n, n
		if n >= 2 && !g.noReslice && g.chance(35) && !g.off["literal-reslice"] {
			// spare capacity: a resliced literal
			a := g.rng(0, 1, "ra")
			b := g.rng(a+1, n-1, "rb")
			s = fmt.Sprintf("%s[%d:%d]", s, a, b)
			l, c = b-a, n-a
		}
		if path != "" {
			g.shadow[path] = &slen{l, c}
		}
		return s
	case kMap:
		n := g.rng(2, 4, "ml")
		used := map[int]bool{}
		var el []string
		for i := 0; i < n; i++ {
			k := g.rng(0, mapKeys-1, "k")
			if used[k] {
				continue
			}
			used[k] = true
			el = append(el, fmt.Sprintf("%d: %s", k, g.lit(t.elem, "")))
		}
		if path != "" {
			g.keys[path] = used
		}
		return t.str + "{" + strings.Join(el, ", ") + "}"
	case kPtr:
		if t.elem.k == kInt || t.elem.k == kPtr {
			return fmt.Sprintf("pint(%d)", g.rng(0, 99, "v"))
		}
		save := g.noReslice
		g.noReslice = t.elem.k == kSlice // &[]T{…}[a:b] is not an addressable operand
		s := "&" + g.lit(t.elem, "")
		g.noReslice = save
		return s
	case kStruct:
		var el []string
		for _, f := range t.fields {
			sub := ""
			if path != "" {
				sub = path + "." + f.name
			}
			el = append(el, f.name+": "+g.lit(f.t, sub))
		}
		return t.str + "{" + strings.Join(el, ", ") + "}"
	}
	panic("lit")
}

// ---------------------------------------------------------------------------
// printing

// show emits statements that print the value of expr completely: pointers
// are followed, never printed; slices show len/cap; maps are visited in key
// order.
func (g *gen) show(expr string, t *typ, depth int) {
	w := g.w
	if isSimple(t) {
		w.line("fmt.Print(%s, \" \")", expr)
		return
	}
	switch t.k {
	case kSlice:
		if isSimple(t.elem) {
			w.line("fmt.Print(len(%s), \"/\", cap(%s), %s, \" \")", expr, expr, expr)
			return
		}
		iv := fmt.Sprintf("di%d", depth)
		w.line("fmt.Print(len(%s), \"/\", cap(%s), \"[\")", expr, expr)
		w.line("for %s := 0; %s < len(%s); %s++ {", iv, iv, expr, iv)
		w.ind++
		g.show(fmt.Sprintf("%s[%s]", expr, iv), t.elem, depth+1)
		w.ind--
		w.line("}")
		w.line("fmt.Print(\"] \")")
	case kArray:
		iv := fmt.Sprintf("di%d", depth)
		w.line("fmt.Print(\"[\")")
		w.line("for %s := 0; %s < %d; %s++ {", iv, iv, t.n, iv)
		w.ind++
		g.show(fmt.Sprintf("%s[%s]", expr, iv), t.elem, depth+1)
		w.ind--
		w.line("}")
		w.line("fmt.Print(\"] \")")
	case kPtr:
		w.line("if %s == nil {", expr)
		w.ind++
		w.line("fmt.Print(\"nil \")")
		w.ind--
		w.line("} else {")
		w.ind++
		w.line("fmt.Print(\"&\")")
		g.show("(*"+expr+")", t.elem, depth+1)
		w.ind--
		w.line("}")
	case kStruct:
		w.line("fmt.Print(\"{\")")
		for _, f := range t.fields {
			g.show(expr+"."+f.name, f.t, depth+1)
		}
		w.line("fmt.Print(\"} \")")
	case kMap:
		kv, ev, ok := fmt.Sprintf("dk%d", depth), fmt.Sprintf("de%d", depth), fmt.Sprintf("dok%d", depth)
		w.line("fmt.Print(\"map\", len(%s), \"[\")", expr)
		w.line("for %s := 0; %s < %d; %s++ {", kv, kv, mapKeys, kv)
		w.ind++
		w.line("if %s, %s := %s[%s]; %s {", ev, ok, expr, kv, ok)
		w.ind++
		w.line("fmt.Print(%s, \":\")", kv)
		g.show(ev, t.elem, depth+1)
		w.ind--
		w.line("}")
		w.ind--
		w.line("}")
		w.line("fmt.Print(\"] \")")
	}
}

// showLine prints a labelled value on its own line.
func (g *gen) showLine(label, expr string, t *typ) {
	g.w.line("fmt.Print(%q)", label+"=")
	g.show(expr, t, 0)
	g.w.line("fmt.Println()")
}
