// Package c04 checks that values are copied or shared exactly as Go
// prescribes: sequences of assignments, calls, ranges, closures, appends,
// slicings, map and pointer operations over a pool of nested composite
// variables, with the whole pool printed after every step, compared with the
// same source built by the Go toolchain.
package c04

import (
	"encoding/json"
	"path/filepath"
	"regexp"
	"strconv"
	"strings"
	"time"

	"pgregory.net/rapid"

	"verif/internal/diff"
	"verif/internal/oracle"
	"verif/internal/progen"
	"verif/internal/vf"
	"verif/internal/yrun"
)

// Case is the replayable form of a failing program.
type Case struct {
	Src string `json:"src"`
}

// knownSwitches maps a known-finding key to the generator switches that keep
// the campaign from re-deriving it.
var knownSwitches = map[string][]string{
	"addr-implicit-deref-index":        {"addr-implicit-deref-index"},
	"defer-args-not-copied":            {"op:defer-arg"},
	"variadic-param-cap":               {"variadic-cap"},
	"literal-elem-index-of-deref":      {"literal-elem-index-of-deref"},
	"comma-ok-missing-key-keeps-value": {"comma-ok-missing-key", "op:lookup-loop"},
	"range-assign-form-not-assigned":   {"op:range-assign"},
	"tuple-assign-to-map-elem":         {"tuple-assign-to-map-elem"},
}

func config(ctx *vf.Ctx) map[string]bool {
	off := map[string]bool{}
	// recorded under C03: len(p)/cap(p) of a nil *[N]T is evaluated (and panics)
	if vf.IsKnown("C03", "len-of-nil-array-pointer-evaluated") {
		off["len-of-nil-array-pointer"] = true
	}
	for key, sw := range knownSwitches {
		if vf.IsKnown("C04", key) {
			for _, s := range sw {
				off[s] = true
			}
			if ctx != nil {
				ctx.Excluded(key)
			}
		}
	}
	return off
}

var skipRe = regexp.MustCompile(`(?m)^skip (\d+)$`)

// skipped returns the steps whose guard was false in the native run.
func skipped(stdout string) (map[int]bool, int) {
	m := map[int]bool{}
	for _, s := range skipRe.FindAllStringSubmatch(stdout, -1) {
		n, _ := strconv.Atoi(s[1])
		m[n] = true
	}
	return m, strings.Count(stdout, "skip-inner\n")
}

var dumpLineRe = regexp.MustCompile(`^(v\d+)=`)

// stepOf names the step in which the outputs first differ.
func stepOf(want, got string) string {
	wl, gl := strings.Split(want, "\n"), strings.Split(got, "\n")
	last := -1
	for i := 0; i < len(wl); i++ {
		if i >= len(gl) || wl[i] != gl[i] {
			if strings.HasPrefix(wl[i], "step ") {
				return "the dump of " + wl[i] + " is missing or displaced"
			}
			if m := dumpLineRe.FindStringSubmatch(wl[i]); m != nil {
				return "first differing state: " + m[1] + " after step " + strconv.Itoa(last)
			}
			return "first difference in the output of step " + strconv.Itoa(last+1) + " itself"
		}
		if strings.HasPrefix(wl[i], "step ") {
			last, _ = strconv.Atoi(strings.TrimPrefix(wl[i], "step "))
		}
	}
	return "interpreter prints more than the native program after step " + strconv.Itoa(last)
}

// sigRules are the signature predicates of recorded findings whose failure
// carries a distinctive interpreter error text: a failure that matches is
// reported under the finding's key.
var sigRules = []struct {
	key string
	re  *regexp.Regexp
}{
	{"addr-implicit-deref-index", regexp.MustCompile(`^interpreter rejects .*cannot take address of .* \[kind: indexExpr\]`)},
}

func compare(nat *oracle.Result, out *yrun.Outcome) diff.Verdict {
	v := diff.Compare(nat, out)
	if v.Sig == "stdout" {
		v.Msg = v.Msg + " (" + stepOf(nat.Stdout, out.Stdout) + ")"
	}
	if v.Sig != "" {
		for _, r := range sigRules {
			if r.re.MatchString(v.Msg) {
				v.Sig = r.key
				break
			}
		}
	}
	return v
}

func run(ctx *vf.Ctx) {
	off := config(ctx)
	batch, err := oracle.NewBatch(filepath.Join(ctx.Scratch, "oracle"))
	if err != nil {
		ctx.Inconclusive("oracle: %v", err)
		return
	}
	illTyped := 0
	var firstIll string
	ctx.RapidCollect("gen", 0, ctx.Cases, func(t *rapid.T) {
		p := Generate(t, off)
		if e := progen.TypeCheck(p.Src); e != "" {
			illTyped++
			if firstIll == "" {
				firstIll = e
				if ctx.Survey {
					ctx.CaseFail(t, "generator-ill-typed", e, Case{Src: p.Src})
				}
			}
			ctx.Class("generator-ill-typed")
			return
		}
		batch.Add(oracle.Single(p.Src))
	})
	if illTyped*100 > ctx.Cases {
		ctx.Inconclusive("generator produced %d ill-typed programs of %d (first: %s)", illTyped, ctx.Cases, firstIll)
		return
	}
	if err := batch.Build(); err != nil {
		ctx.Inconclusive("native build: %v", err)
		return
	}
	pool := yrun.NewPool(1, filepath.Join(ctx.Scratch, "workers"))
	defer pool.Close()
	discards := 0
	guardedSteps, skippedSteps, innerSkips, steps := 0, 0, 0, 0
	ctx.Rapid("diff", 0, ctx.Cases, shrinkTime(ctx), func(t *rapid.T) {
		p := Generate(t, off)
		if progen.TypeCheck(p.Src) != "" {
			ctx.Done()
			return
		}
		_, nat := batch.Ensure(oracle.Single(p.Src))
		out := pool.Run(&yrun.Job{Src: p.Src}, 3*time.Minute)
		v := compare(nat, &out)
		ctx.Eval()
		switch {
		case v.Inconclusive != "":
			ctx.Inconclusive("%s", v.Inconclusive)
		case v.Discard != "":
			discards++
			ctx.Class("discard:" + v.Discard)
		case nat.Panicked:
			// programs are total by construction: a native panic is a generator bug
			discards++
			ctx.Class("discard:native-panic")
			if ctx.Survey {
				ctx.CaseFail(t, "generator-native-panic", nat.PanicLine, Case{Src: p.Src})
			}
		case v.Sig != "":
			ctx.CaseFail(t, v.Sig, v.Msg, Case{Src: p.Src})
		default:
			for k, n := range p.Ops {
				ctx.ClassN(k, n)
			}
			sk, inner := skipped(nat.Stdout)
			steps += p.Steps
			guardedSteps += len(p.Guarded)
			skippedSteps += len(sk)
			innerSkips += inner
			nt := ""
			for s, shape := range p.Flagged {
				if !sk[s] {
					ctx.Class("nontrivial-step:" + shape)
					nt = shape
				}
			}
			if nt != "" {
				ctx.Nontrivial(p.Src)
			}
			ctx.Sample(map[string]any{"src": p.Src, "steps": p.Steps, "stdout_lines": strings.Count(nat.Stdout, "\n")}, 1)
		}
		ctx.Done()
	})
	ctx.SetExtra("steps", float64(steps))
	ctx.SetExtra("guarded_steps", float64(guardedSteps))
	ctx.SetExtra("guarded_steps_skipped", float64(skippedSteps))
	ctx.SetExtra("inner_guards_skipped", float64(innerSkips))
	if discards*50 > ctx.Cases && ctx.Cases >= 50 {
		ctx.Inconclusive("%d of %d cases discarded (native side)", discards, ctx.Cases)
	}
}

func shrinkTime(ctx *vf.Ctx) time.Duration {
	if ctx.Tier == "thorough" {
		return 4 * time.Minute
	}
	return 60 * time.Second
}

func replay(ctx *vf.Ctx, data json.RawMessage) (string, string) {
	var c Case
	if err := json.Unmarshal(data, &c); err != nil {
		return "bad replay file: " + err.Error(), "harness"
	}
	batch, err := oracle.NewBatch(filepath.Join(ctx.Scratch, "oracle"))
	if err != nil {
		return "oracle: " + err.Error(), "harness"
	}
	_, nat := batch.Ensure(oracle.Single(c.Src))
	pool := yrun.NewPool(1, filepath.Join(ctx.Scratch, "workers"))
	defer pool.Close()
	out := pool.Run(&yrun.Job{Src: c.Src}, 3*time.Minute)
	v := compare(nat, &out)
	if v.Discard != "" || v.Inconclusive != "" {
		return "", ""
	}
	return v.Msg, v.Sig
}

func init() {
	vf.Register(&vf.Check{
		ID:    "C04",
		Level: "exploration",
		Rule:  "case = one program: a pool of 6-10 package-level or main-local variables of nested composite types (arrays, structs with int/array/slice/map/pointer/struct fields, arrays of structs, slices of slices, maps to structs/slices/arrays/pointers, named array/slice/map types, pointers to these) initialised with full literals, then 10-60 steps drawn from {element/field update through any path, whole-value assignment, literal built from copies of places, make/new/zero value, call with mutated parameter (by value, by pointer, returned, named result, several results, variadic values and spread, deferred call), range with mutation of the ranged container (array, &array, array[:], slice, *array, pointer to array; := and = forms), closures (direct capture, captured copy, parameter, stored and called later, closure factory), local copy then mutate, boxing in interface{} and type assertion, conversion between named and unnamed types, p = &x, q := &x, swaps, i,a[i] = ..., s,s[i] = ..., append within and beyond capacity, append(s, s[i]), append(s[:a], s[b:]...), overlapping and cross copy, 2- and 3-index slicing, len/cap, map insert/delete/lookup/comma-ok (:= and =, in a loop)/read-modify-write, &s[i] then reallocating append, two appends on one base}; every operation is guarded in the program text so the program cannot panic; after every step dump(step) prints the whole pool (pointers followed, never printed; len/cap of every slice; maps in key order); oracle = stdout of the native binary (first differing step reported); non-trivial = at least one executed (guard true in the native run) step holding a copy-then-mutate pair on an array or struct or an append within capacity through an alias followed by a read of the other alias; distinct by source text; coverage keys guarded_steps / guarded_steps_skipped give the ratio of guarded steps whose guard was false",
		Assumptions: []string{
			"the installed Go toolchain (go1.23, language level go1.22) is the reference",
			"the capacity of a slice after a growing append is not defined by the language: every append that grows clips its result to cap == len, so capacities printed and later in-place appends are defined",
			"no statement reads a variable that a call in the same statement may write; call results are stored through a temporary unless the target is a fixed location; no map iteration; pointers are never printed",
			"constructs listed under excluded_by_construction are switched off because of recorded known findings",
		},
		Cases:  map[string]int{"quick": 320, "thorough": 8000},
		Shards: map[string]int{"quick": 8, "thorough": 16},
		Run:    run,
		Replay: replay,
	})
}
