package c05

import (
	"fmt"
	"sort"
	"strings"

	"pgregory.net/rapid"
)

// gen is the generator state of one program.
type gen struct {
	t   *rapid.T
	m   *model
	off map[string]bool // feature switches turned off by known findings
	// Excluded counts probes dropped because of a known finding.
	Excluded map[string]int
	pid      int
	nv       int
	cur      *probe
}

func (g *gen) intn(lo, hi int, label string) int { return rapid.IntRange(lo, hi).Draw(g.t, label) }
func (g *gen) chance(pct int, label string) bool { return rapid.IntRange(0, 99).Draw(g.t, label) < pct }
func (g *gen) pick(n int, label string) int      { return rapid.IntRange(0, n-1).Draw(g.t, label) }
func (g *gen) pickS(s []string, label string) string {
	return s[g.pick(len(s), label)]
}

var extraTypes = [][2]string{
	{"bool", "true"}, {"float64", "1.5"}, {"uint8", "7"}, {"[2]int", "[2]int{1, 2}"}, {"int64", "-9"},
	{"rune", "'z'"}, {"[]string", "[]string{\"u\"}"}, {"uint16", "300"}, {"complex128", "2i"}, {"[1]bool", "[1]bool{true}"},
}

// genModel draws the type hierarchy.
func (g *gen) genModel() {
	m := &model{}
	g.m = m
	ni := g.intn(2, 4, "nifaces")
	for i := 0; i < ni; i++ {
		it := &ifaceT{Idx: i}
		pool := append([]string{}, genericNames...)
		if g.chance(35, "iface-host-name") {
			pool = append(pool, "String", "Error", "Write", "Len")
		}
		k := g.intn(1, 3, "iface-n")
		seen := map[string]bool{}
		if i > 0 && g.chance(25, "iface-embed") {
			e := g.pick(i, "iface-embed-idx")
			it.Embeds = append(it.Embeds, e)
			for _, n := range m.allNames(m.Ifaces[e]) {
				seen[n] = true
			}
		}
		for j := 0; j < k; j++ {
			n := g.pickS(pool, "iface-name")
			if !seen[n] {
				seen[n] = true
				it.Names = append(it.Names, n)
			}
		}
		if len(it.Names) == 0 && len(it.Embeds) == 0 {
			it.Names = []string{"Ma"}
		}
		m.Ifaces = append(m.Ifaces, it)
	}
	n := g.intn(3, 6, "nstructs")
	m.Structs = make([]*structT, n)
	perm := g.intn(0, len(extraTypes)-1, "extra-rot")
	for i := n - 1; i >= 0; i-- {
		s := &structT{Idx: i}
		m.Structs[i] = s
		et := extraTypes[(perm+i)%len(extraTypes)]
		s.Extra, s.ExtraV = et[0], et[1]
		s.S = g.pickS([]string{"a", "xy", "q,r", "hello\nyo", ""}, "s-init")
		// generic methods
		for _, name := range genericNames {
			if g.chance(25+(50*i)/n, "decl-"+name) {
				md := method{Name: name, Ptr: g.chance(50, "ptr-recv")}
				if name == "Mb" && !g.off["altsig"] && g.chance(14, "altsig") {
					md.Alt = true
				}
				s.Methods = append(s.Methods, md)
			}
		}
		// host groups
		ng := g.intn(0, 2, "nhost")
		for j := 0; j < ng; j++ {
			grp := g.pickS(hostGroupNames, "host-group")
			same := g.chance(60, "host-same-recv")
			ptr := g.chance(50, "host-ptr")
			for _, name := range hostGroups[grp] {
				if s.decl(name) != nil {
					continue
				}
				p := ptr
				if !same {
					p = g.chance(50, "host-ptr-m")
				}
				s.Methods = append(s.Methods, method{Name: name, Ptr: p})
			}
			switch grp {
			case "sort":
				s.HasV = true
			case "unwrap":
				s.HasE = true
			}
		}
		if s.HasV {
			k := g.intn(2, 6, "vlen")
			for j := 0; j < k; j++ {
				s.V = append(s.V, g.intn(0, 49, "v"))
			}
		}
		if s.HasE {
			s.EInit = g.intn(0, 2, "einit")
		}
		// embedded fields
		if i < n-1 {
			ne := 0
			switch r := g.intn(0, 99, "nembed"); {
			case r < 15:
				ne = 0
			case r < 70:
				ne = 1
			default:
				ne = 2
			}
			used := map[int]bool{}
			for j := 0; j < ne; j++ {
				var cand []int
				for c := i + 1; c < n; c++ {
					if !used[c] && m.depthBelow(c)+1 <= 3 {
						cand = append(cand, c)
					}
				}
				if len(cand) == 0 {
					break
				}
				c := cand[0]
				if !g.chance(55, "embed-next") {
					c = cand[g.pick(len(cand), "embed-idx")]
				}
				used[c] = true
				k := embValue
				if g.chance(50, "embed-ptr") {
					k = embPtr
				}
				s.Embeds = append(s.Embeds, embed{Kind: k, Idx: c})
			}
		}
		if !g.off["promoted-through-embedded-iface"] && g.chance(22, "embed-iface") {
			k := g.pick(len(m.Ifaces), "embed-iface-idx")
			e := embed{Kind: embIface, Idx: k, Hold: -1}
			names := m.allNames(m.Ifaces[k])
			type h struct {
				ti  int
				ptr bool
			}
			var hs []h
			for c := i + 1; c < n; c++ {
				if m.implements(c, false, names) {
					hs = append(hs, h{c, false})
				}
				if m.implements(c, true, names) {
					hs = append(hs, h{c, true})
				}
			}
			if len(hs) > 0 && g.chance(85, "iface-held") {
				x := hs[g.pick(len(hs), "iface-holder")]
				e.Hold, e.HoldPtr = x.ti, x.ptr
			}
			s.Embeds = append(s.Embeds, e)
		}
	}
	// shadowing with another signature: a struct which gets Mb by promotion
	// declares its own Mb with the other signature
	if !g.off["altsig"] {
		for _, s := range m.Structs {
			if s.decl("Mb") != nil || len(s.Embeds) == 0 || !g.chance(30, "shadow-altsig") {
				continue
			}
			if r := m.resolve(s.Idx, "Mb"); r.OK && r.Owner != s.Idx {
				if d := m.Structs[r.Owner].decl("Mb"); d != nil {
					s.Methods = append(s.Methods, method{Name: "Mb", Ptr: g.chance(50, "shadow-ptr"), Alt: !d.Alt})
				}
			}
		}
	}
	// inner calls: a method may call a method promoted from a deeper struct
	for _, s := range m.Structs {
		for k := range s.Methods {
			md := &s.Methods[k]
			if !isGeneric(md.Name) || g.off["inner-call"] || !g.chance(25, "inner") {
				continue
			}
			var cand []string
			for _, n := range genericNames {
				if s.decl(n) != nil {
					continue
				}
				if r := m.resolve(s.Idx, n); r.OK && r.Owner > s.Idx && !g.bad(s.Idx, n) {
					cand = append(cand, n)
				}
			}
			if len(cand) == 0 {
				continue
			}
			n := cand[g.pick(len(cand), "inner-name")]
			md.Inner = &innerCall{Name: n, Args: g.args(n)}
		}
	}
}

func isGeneric(n string) bool {
	for _, x := range genericNames {
		if x == n {
			return true
		}
	}
	return false
}

// args draws an argument list for a method of the pool.
func (g *gen) args(name string) string {
	switch name {
	case "Ma":
		return fmt.Sprint(g.intn(1, 9, "arg"))
	case "Mc":
		return fmt.Sprintf("%q", g.pickS([]string{"c", "de", "f"}, "arg"))
	case "Md":
		return fmt.Sprintf("%d, %q", g.intn(0, 4, "arg"), g.pickS([]string{"", "gh", "ijklm"}, "arg"))
	case "Read":
		return fmt.Sprintf("make([]byte, %d)", g.intn(1, 4, "arg"))
	case "Write":
		return fmt.Sprintf("[]byte(%q)", g.pickS([]string{"w", "vw"}, "arg"))
	case "Less", "Swap":
		return fmt.Sprintf("%d, %d", g.intn(0, 1, "arg"), g.intn(0, 1, "arg"))
	}
	return ""
}

// target is a resolvable (type, method) pair.
type target struct {
	ti   int
	name string
	r    res
}

func (g *gen) targets(names []string) []target {
	var out []target
	for _, s := range g.m.Structs {
		for _, n := range names {
			if r := g.m.resolve(s.Idx, n); r.OK {
				if g.bad(s.Idx, n) {
					continue
				}
				out = append(out, target{s.Idx, n, r})
			}
		}
	}
	return out
}

// bad: the (type, method) pair must be avoided because of a known finding.
func (g *gen) bad(ti int, name string) bool {
	if g.off["promotion-depth-first"] && g.m.dfsDiffers(ti, name) {
		g.Excluded["promotion-depth-first"]++
		return true
	}
	return false
}

// pickTarget selects a target, steering towards a drawn (receiver,
// embedding) class so that every class of the distribution is populated.
func (g *gen) pickTarget(names []string, ok func(target) bool) (target, bool) {
	all := g.targets(names)
	var cand []target
	for _, t := range all {
		if ok == nil || ok(t) {
			cand = append(cand, t)
		}
	}
	if len(cand) == 0 {
		return target{}, false
	}
	// group by (receiver, embedding) cell and draw the cell first
	cells := map[string][]target{}
	var order []string
	for _, t := range cand {
		c := t.r.recvKind() + "/" + t.r.embKind()
		if _, ok := cells[c]; !ok {
			order = append(order, c)
		}
		cells[c] = append(cells[c], t)
	}
	sort.Strings(order)
	best := cells[order[g.pick(len(order), "cell")]]
	return best[g.pick(len(best), "target")], true
}

// ---------------------------------------------------------------------------
// probe construction helpers

func (g *gen) newProbe(form string) *probe {
	p := &probe{ID: g.pid, Form: form}
	g.pid++
	g.nv = 0
	g.cur = p
	p.feat("form:" + form)
	return p
}

func (p *probe) feat(f ...string) {
	for _, x := range f {
		dup := false
		for _, y := range p.Feats {
			if y == x {
				dup = true
			}
		}
		if !dup {
			p.Feats = append(p.Feats, x)
		}
	}
}

func (p *probe) has(f string) bool {
	for _, y := range p.Feats {
		if y == f {
			return true
		}
	}
	return false
}

func (p *probe) add(format string, a ...any) {
	p.Lines = append(p.Lines, fmt.Sprintf(format, a...))
}

// class records a covered cell of the distribution.
func (p *probe) class(r res, form string) {
	recv, emb := r.recvKind(), r.embKind()
	p.Classes = append(p.Classes, recv+"/"+emb+"/"+form)
	p.feat("recv:"+recv, "emb:"+emb)
	if emb != "none" && (form == "interface" || form == "method-value") {
		p.Nontrivial = true
	}
	if form == "host" {
		p.Nontrivial = true
	}
}

func (g *gen) v(prefix string) string {
	g.nv++
	return fmt.Sprintf("%s%d", prefix, g.nv)
}

// call emits a call of callee (an expression of the method's function type,
// possibly with leading arguments already in pre) and prints the results.
func (g *gen) call(callee, pre, name string, alt bool) {
	p := g.cur
	sg := g.m.sigOf(name, alt)
	a := g.args(name)
	if pre != "" && a != "" {
		a = pre + ", " + a
	} else if pre != "" {
		a = pre
	}
	if sg.nres == 0 {
		p.add("%s(%s)", callee, a)
		return
	}
	var vars, shown []string
	for i := 0; i < sg.nres; i++ {
		v := g.v("r")
		vars = append(vars, v)
		shown = append(shown, fmt.Sprintf(sg.resFmt[i], v))
	}
	p.add("%s := %s(%s)", strings.Join(vars, ", "), callee, a)
	p.add("fmt.Println(%q, %s)", p.tag(), strings.Join(shown, ", "))
}

// mutate emits a direct modification of the state of the method's owner
// reached from base (an addressable T<ti> or a *T<ti>).
func (g *gen) mutate(base string, r res) {
	if r.Owner < 0 {
		return
	}
	p := g.cur
	if p.Form == "method-value" && !r.M.Ptr && g.off["mv-value-receiver-bound-late"] {
		g.Excluded["mv-value-receiver-bound-late"]++
		return
	}
	if p.has("iface:holds-value") && g.off["iface-holds-value-aliases-variable"] {
		g.Excluded["iface-holds-value-aliases-variable"]++
		return
	}
	g.cur.add("%s.n%d += 100", g.m.pathExpr(base, r), r.Owner)
	g.cur.add("%s.s%d += \"m\"", g.m.pathExpr(base, r), r.Owner)
}

func (g *gen) dump(ti int, ptrExpr string) {
	g.cur.add("fmt.Println(%q, dT%d(%s))", g.cur.tag(), ti, ptrExpr)
}

func (g *gen) funcType(name string, alt bool) string {
	sg := g.m.sigOf(name, alt)
	if sg.results == "" {
		return "func(" + sg.params + ")"
	}
	return "func(" + sg.params + ") " + sg.results
}

// ---------------------------------------------------------------------------
// forms

func (g *gen) probeDirect() *probe {
	t, ok := g.pickTarget(allMethodNames, nil)
	if !ok {
		return nil
	}
	p := g.newProbe("direct")
	p.feat("name:" + t.name)
	k := g.intn(1, 20, "k")
	variants := []string{"addr", "ptr", "slice-elem", "copy-alias", "ptr-deref", "ptr-ptr"}
	if t.r.inValueSet() {
		variants = append(variants, "nonaddr", "nonaddr", "map-elem", "array-result")
	}
	if len(t.r.Path) > 0 {
		variants = append(variants, "path", "path")
		if !g.off["nil-embedded-pointer"] {
			for _, e := range t.r.Path {
				if e.Kind == embPtr {
					variants = append(variants, "nil-embedded")
					break
				}
			}
		}
	}
	if !g.off["nil-receiver"] {
		variants = append(variants, "nil-recv")
	}
	vr := g.pickS(variants, "direct-variant")
	p.feat("direct:" + vr)
	p.class(t.r, "direct")
	T := fmt.Sprintf("T%d", t.ti)
	alt := t.r.alt()
	switch vr {
	case "addr":
		p.add("x := mk%s(%d)", T, k)
		g.call("x."+t.name, "", t.name, alt)
		g.call("x."+t.name, "", t.name, alt)
		g.dump(t.ti, "&x")
	case "ptr":
		p.add("x := p%s(%d)", T, k)
		g.call("x."+t.name, "", t.name, alt)
		g.call("x."+t.name, "", t.name, alt)
		g.dump(t.ti, "x")
	case "ptr-deref":
		p.add("x := p%s(%d)", T, k)
		g.call("(*x)."+t.name, "", t.name, alt)
		g.call("(*x)."+t.name, "", t.name, alt)
		g.dump(t.ti, "x")
	case "ptr-ptr":
		p.add("x := p%s(%d)", T, k)
		p.add("y := &x")
		g.call("(*y)."+t.name, "", t.name, alt)
		g.call("(**y)."+t.name, "", t.name, alt)
		g.dump(t.ti, "*y")
	case "slice-elem":
		p.add("x := []%s{mk%s(%d), mk%s(%d)}", T, T, k, T, k+1)
		g.call("x[1]."+t.name, "", t.name, alt)
		g.call("x[1]."+t.name, "", t.name, alt)
		g.dump(t.ti, "&x[0]")
		g.dump(t.ti, "&x[1]")
	case "copy-alias":
		p.add("x := mk%s(%d)", T, k)
		p.add("y := x")
		g.call("y."+t.name, "", t.name, alt)
		g.call("x."+t.name, "", t.name, alt)
		g.dump(t.ti, "&x")
		g.dump(t.ti, "&y")
	case "nonaddr":
		g.call(fmt.Sprintf("mk%s(%d).%s", T, k, t.name), "", t.name, alt)
	case "map-elem":
		p.add("x := map[string]%s{\"k\": mk%s(%d)}", T, T, k)
		g.call("x[\"k\"]."+t.name, "", t.name, alt)
		g.call("x[\"k\"]."+t.name, "", t.name, alt)
		p.add("y := x[\"k\"]")
		g.dump(t.ti, "&y")
	case "array-result":
		p.add("f := func() [2]%s { return [2]%s{mk%s(%d), mk%s(%d)} }", T, T, T, k, T, k+2)
		g.call("f()[1]."+t.name, "", t.name, alt)
	case "path":
		n := g.intn(1, len(t.r.Path), "path-len")
		sub := res{OK: true, Path: t.r.Path[:n]}
		p.add("x := mk%s(%d)", T, k)
		base := g.m.pathExpr("x", sub)
		g.call(base+"."+t.name, "", t.name, alt)
		g.call("x."+t.name, "", t.name, alt)
		g.dump(t.ti, "&x")
	case "nil-embedded":
		p.feat("nil-embedded-pointer")
		p.add("x := mk%s(%d)", T, k)
		for i, e := range t.r.Path {
			if e.Kind == embPtr {
				p.add("%s = nil", g.m.pathExpr("x", res{Path: t.r.Path[:i+1]}))
				break
			}
		}
		g.dump(t.ti, "&x")
		g.call("x."+t.name, "", t.name, alt)
		p.add("fmt.Println(%q, \"not reached?\")", p.tag())
	case "nil-recv":
		p.feat("nil-receiver")
		p.add("var x *%s", T)
		g.call("x."+t.name, "", t.name, alt)
		p.add("fmt.Println(%q, \"after\")", p.tag())
	}
	return p
}

func (g *gen) probeMethodValue() *probe {
	t, ok := g.pickTarget(allMethodNames, nil)
	if !ok {
		return nil
	}
	p := g.newProbe("method-value")
	p.feat("name:" + t.name)
	p.class(t.r, "method-value")
	k := g.intn(1, 20, "k")
	T := fmt.Sprintf("T%d", t.ti)
	alt := t.r.alt()
	variants := []string{"addr", "addr", "ptr", "ptr", "passed", "stored-field", "deferred-late"}
	if t.r.inValueSet() {
		variants = append(variants, "nonaddr")
	}
	if len(t.r.Path) > 0 {
		variants = append(variants, "path")
	}
	vr := g.pickS(variants, "mv-variant")
	p.feat("mv:" + vr)
	switch vr {
	case "addr":
		p.add("x := mk%s(%d)", T, k)
		p.add("f := x.%s", t.name)
		g.mutate("x", t.r)
		g.call("f", "", t.name, alt)
		g.call("f", "", t.name, alt)
		g.dump(t.ti, "&x")
	case "ptr":
		p.add("x := p%s(%d)", T, k)
		p.add("f := x.%s", t.name)
		g.mutate("x", t.r)
		g.call("f", "", t.name, alt)
		g.call("f", "", t.name, alt)
		g.dump(t.ti, "x")
	case "nonaddr":
		p.add("f := mk%s(%d).%s", T, k, t.name)
		g.call("f", "", t.name, alt)
		g.call("f", "", t.name, alt)
	case "path":
		n := g.intn(1, len(t.r.Path), "path-len")
		sub := res{OK: true, Path: t.r.Path[:n]}
		p.add("x := mk%s(%d)", T, k)
		p.add("f := %s.%s", g.m.pathExpr("x", sub), t.name)
		g.mutate("x", t.r)
		g.call("f", "", t.name, alt)
		g.call("f", "", t.name, alt)
		g.dump(t.ti, "&x")
	case "passed":
		fn := fmt.Sprintf("ap%d", p.ID)
		save := p.Lines
		p.Lines = nil
		g.call("f", "", t.name, alt)
		g.call("f", "", t.name, alt)
		body := p.Lines
		p.Lines = save
		d := fmt.Sprintf("func %s(f %s) {\n", fn, g.funcType(t.name, alt))
		for _, l := range body {
			d += "\t" + l + "\n"
		}
		d += "}\n"
		p.Decls = append(p.Decls, d)
		p.add("x := mk%s(%d)", T, k)
		p.add("%s(x.%s)", fn, t.name)
		g.dump(t.ti, "&x")
	case "stored-field":
		p.add("x := mk%s(%d)", T, k)
		p.add("h := struct{ f %s }{x.%s}", g.funcType(t.name, alt), t.name)
		g.mutate("x", t.r)
		g.call("h.f", "", t.name, alt)
		g.call("h.f", "", t.name, alt)
		g.dump(t.ti, "&x")
	case "deferred-late":
		// the method value is bound first, called after a direct call
		p.add("x := mk%s(%d)", T, k)
		p.add("f := x.%s", t.name)
		g.call("x."+t.name, "", t.name, alt)
		g.call("f", "", t.name, alt)
		g.dump(t.ti, "&x")
	}
	return p
}

func (g *gen) probeMethodExpr() *probe {
	t, ok := g.pickTarget(allMethodNames, nil)
	if !ok {
		return nil
	}
	p := g.newProbe("method-expr")
	p.feat("name:" + t.name)
	p.class(t.r, "method-expr")
	k := g.intn(1, 20, "k")
	T := fmt.Sprintf("T%d", t.ti)
	alt := t.r.alt()
	valueType := t.r.inValueSet() && g.chance(50, "mexpr-value-type")
	stored := g.chance(50, "mexpr-stored")
	if stored {
		p.feat("mexpr:stored")
	} else {
		p.feat("mexpr:direct")
	}
	p.add("x := mk%s(%d)", T, k)
	var expr, arg string
	if valueType {
		p.feat("mexpr:value-type")
		expr, arg = T+"."+t.name, "x"
	} else {
		p.feat("mexpr:ptr-type")
		expr, arg = "(*"+T+")."+t.name, "&x"
	}
	if stored {
		p.add("g := %s", expr)
		expr = "g"
	}
	g.call(expr, arg, t.name, alt)
	g.mutate("x", t.r)
	g.call(expr, arg, t.name, alt)
	g.dump(t.ti, "&x")
	return p
}

// ifaceChoice is an interface type usable in a declaration.
type ifaceChoice struct {
	src   string
	names []string
	kind  string // user, host, anon
}

// ifacesWith lists interface types that contain name and that T<ti> (or its
// pointer) implements.
func (g *gen) ifacesWith(t target, ptr bool) []ifaceChoice {
	var out []ifaceChoice
	if !t.r.alt() {
		for _, it := range g.m.Ifaces {
			names := g.m.allNames(it)
			if contains(names, t.name) && g.m.implements(t.ti, ptr, names) {
				out = append(out, ifaceChoice{it.name(), names, "user"})
			}
		}
		for _, hn := range hostIfaceNames {
			names := hostIfaces[hn]
			if contains(names, t.name) && g.m.implements(t.ti, ptr, names) {
				out = append(out, ifaceChoice{hn, names, "host"})
			}
		}
	}
	if ptr || t.r.inValueSet() {
		sg := g.m.sigOf(t.name, t.r.alt())
		out = append(out, ifaceChoice{fmt.Sprintf("interface{ %s(%s) %s }", t.name, sg.params, sg.results), []string{t.name}, "anon"})
	}
	return out
}

func contains(s []string, x string) bool {
	for _, y := range s {
		if y == x {
			return true
		}
	}
	return false
}

func (g *gen) probeInterface() *probe {
	t, ok := g.pickTarget(allMethodNames, nil)
	if !ok {
		return nil
	}
	p := g.newProbe("interface")
	p.feat("name:" + t.name)
	p.class(t.r, "interface")
	k := g.intn(1, 20, "k")
	T := fmt.Sprintf("T%d", t.ti)
	alt := t.r.alt()
	ptr := !t.r.inValueSet() || g.chance(50, "iface-holds-ptr")
	cs := g.ifacesWith(t, ptr)
	c := cs[g.pick(len(cs), "iface-choice")]
	p.feat("iface:" + c.kind)
	if ptr {
		p.feat("iface:holds-ptr")
	} else {
		p.feat("iface:holds-value")
	}
	variants := []string{"var", "var", "var", "param", "slice", "convert", "any-assert"}
	if !g.off["iface-tuple-assign"] {
		// the interface variable is set by a tuple assignment: from the results of
		// a call returning the concrete type, or from several concrete values
		variants = append(variants, "tuple-call", "tuple-assign")
	}
	if !g.off["nil-interface-call"] {
		variants = append(variants, "nil-iface")
	}
	if ptr && !g.off["nil-pointer-in-interface"] {
		variants = append(variants, "nil-ptr-in-iface")
	}
	vr := g.pickS(variants, "iface-variant")
	p.feat("iface:" + vr)
	for _, n := range c.names {
		if r := g.m.resolve(t.ti, n); r.OK && (len(r.Path) > 0 || ptr && !r.ptrRecv()) {
			p.feat("dyn-indirect-method")
		}
	}
	val := "x"
	if ptr {
		val = "&x"
	}
	other := func() {
		// call another method of the interface as well
		if len(c.names) > 1 {
			n2 := c.names[g.pick(len(c.names), "iface-other")]
			if !g.bad(t.ti, n2) {
				g.call("i."+n2, "", n2, false)
			}
		}
	}
	switch vr {
	case "var":
		p.add("x := mk%s(%d)", T, k)
		p.add("var i %s = %s", c.src, val)
		g.call("i."+t.name, "", t.name, alt)
		g.mutate("x", t.r)
		g.call("i."+t.name, "", t.name, alt)
		other()
		p.add("fmt.Println(%q, i == nil)", p.tag())
		g.dump(t.ti, "&x")
	case "param":
		fn := fmt.Sprintf("ip%d", p.ID)
		save := p.Lines
		p.Lines = nil
		g.call("i."+t.name, "", t.name, alt)
		other()
		g.call("i."+t.name, "", t.name, alt)
		body := p.Lines
		p.Lines = save
		d := fmt.Sprintf("func %s(i %s) {\n", fn, c.src)
		for _, l := range body {
			d += "\t" + l + "\n"
		}
		d += "}\n"
		p.Decls = append(p.Decls, d)
		p.add("x := mk%s(%d)", T, k)
		p.add("%s(%s)", fn, val)
		g.dump(t.ti, "&x")
	case "slice":
		p.add("x := mk%s(%d)", T, k)
		p.add("y := mk%s(%d)", T, k+5)
		v2 := "y"
		if ptr {
			v2 = "&y"
		}
		p.add("for _, i := range []%s{%s, %s, %s} {", c.src, val, v2, val)
		n0 := len(p.Lines)
		g.call("i."+t.name, "", t.name, alt)
		for j := n0; j < len(p.Lines); j++ {
			p.Lines[j] = "\t" + p.Lines[j]
		}
		p.add("}")
		g.dump(t.ti, "&x")
		g.dump(t.ti, "&y")
	case "tuple-call":
		fn := fmt.Sprintf("tp%d", p.ID)
		if ptr {
			p.Decls = append(p.Decls, fmt.Sprintf("func %s(k int) (int, *%s) {\n\tx := mk%s(k)\n\treturn k + 1, &x\n}\n", fn, T, T))
		} else {
			p.Decls = append(p.Decls, fmt.Sprintf("func %s(k int) (int, %s) {\n\treturn k + 1, mk%s(k)\n}\n", fn, T, T))
		}
		p.add("var i %s", c.src)
		p.add("var n int")
		p.add("n, i = %s(%d)", fn, k)
		g.call("i."+t.name, "", t.name, alt)
		other()
		p.add("n, i = %s(%d)", fn, k+3)
		g.call("i."+t.name, "", t.name, alt)
		p.add("fmt.Println(%q, n, i == nil)", p.tag())
	case "tuple-assign":
		p.add("x := mk%s(%d)", T, k)
		p.add("y := mk%s(%d)", T, k+5)
		v2 := "y"
		if ptr {
			v2 = "&y"
		}
		p.add("var i, j %s", c.src)
		p.add("i, j = %s, %s", val, v2)
		g.call("i."+t.name, "", t.name, alt)
		p.add("i, j = j, i")
		g.call("i."+t.name, "", t.name, alt)
		g.call("j."+t.name, "", t.name, alt)
		p.add("fmt.Println(%q, i == nil, j == nil)", p.tag())
		g.dump(t.ti, "&x")
		g.dump(t.ti, "&y")
	case "convert":
		// through a second interface: the single-method anonymous one or any
		sg := g.m.sigOf(t.name, alt)
		p.add("x := mk%s(%d)", T, k)
		p.add("var i %s = %s", c.src, val)
		p.add("var j interface{ %s(%s) %s } = i", t.name, sg.params, sg.results)
		g.call("j."+t.name, "", t.name, alt)
		g.mutate("x", t.r)
		g.call("i."+t.name, "", t.name, alt)
		g.dump(t.ti, "&x")
	case "any-assert":
		p.add("x := mk%s(%d)", T, k)
		p.add("var e interface{} = %s", val)
		g.call("e.("+c.src+")."+t.name, "", t.name, alt)
		g.mutate("x", t.r)
		g.call("e.("+c.src+")."+t.name, "", t.name, alt)
		g.dump(t.ti, "&x")
	case "nil-iface":
		p.feat("nil-interface-call")
		p.add("var i %s", c.src)
		p.add("fmt.Println(%q, i == nil)", p.tag())
		g.call("i."+t.name, "", t.name, alt)
		p.add("fmt.Println(%q, \"after\")", p.tag())
	case "nil-ptr-in-iface":
		p.feat("nil-pointer-in-interface")
		p.add("var x *%s", T)
		p.add("var i %s = x", c.src)
		p.add("fmt.Println(%q, i == nil)", p.tag())
		g.call("i."+t.name, "", t.name, alt)
		p.add("fmt.Println(%q, \"after\")", p.tag())
	}
	return p
}

// typeRef is a type usable as assertion target or type-switch case.
type typeRef struct {
	src   string
	conc  bool // concrete (T or *T)
	d     dyn
	names []string // interface method names
	alt   bool     // anonymous interface over the alternative signature
}

// matches: does a value of dynamic type d satisfy the case / assertion?
func (g *gen) matches(tr typeRef, d dyn) bool {
	if d.Idx < 0 {
		return false
	}
	if tr.conc {
		return tr.d == d
	}
	if tr.alt {
		r := g.m.resolve(d.Idx, "Mb")
		return r.OK && r.alt() && (d.Ptr || r.inValueSet())
	}
	return g.m.implements(d.Idx, d.Ptr, tr.names)
}

func (g *gen) allTypeRefs() []typeRef {
	var out []typeRef
	for _, s := range g.m.Structs {
		out = append(out, typeRef{src: s.name(), conc: true, d: dyn{s.Idx, false}})
		out = append(out, typeRef{src: "*" + s.name(), conc: true, d: dyn{s.Idx, true}})
	}
	for _, it := range g.m.Ifaces {
		out = append(out, typeRef{src: it.name(), names: g.m.allNames(it)})
	}
	for _, hn := range hostIfaceNames {
		out = append(out, typeRef{src: hn, names: hostIfaces[hn]})
	}
	out = append(out, typeRef{src: "interface{ Mb() string }", names: []string{"Mb"}})
	if !g.off["altsig"] {
		out = append(out, typeRef{src: "interface{ Mb() int }", names: []string{"Mb"}, alt: true})
	}
	return out
}

func (g *gen) dynExpr(d dyn, k int) string {
	if d.Idx < 0 {
		return "nil"
	}
	if d.Ptr {
		return fmt.Sprintf("pT%d(%d)", d.Idx, k)
	}
	return fmt.Sprintf("mkT%d(%d)", d.Idx, k)
}

// staticChoices: static types usable for a variable holding dynamic type d.
func (g *gen) staticFor(d dyn) []typeRef {
	out := []typeRef{{src: "interface{}"}}
	for _, it := range g.m.Ifaces {
		names := g.m.allNames(it)
		if d.Idx < 0 || g.m.implements(d.Idx, d.Ptr, names) {
			out = append(out, typeRef{src: it.name(), names: names})
		}
	}
	if !g.off["static-host-iface"] {
		// host interfaces (error, fmt.Stringer) as static type of the operand
		for _, hn := range []string{"fmt.Stringer", "error"} {
			names := hostIfaces[hn]
			if d.Idx >= 0 && g.m.implements(d.Idx, d.Ptr, names) {
				out = append(out, typeRef{src: hn, names: names})
			}
		}
	}
	return out
}

// legalTarget: may a value of static interface type st be asserted to tr?
func (g *gen) legalTarget(st typeRef, tr typeRef) bool {
	if !tr.conc || len(st.names) == 0 {
		return true
	}
	return g.m.implements(tr.d.Idx, tr.d.Ptr, st.names)
}

func (g *gen) probeAssertion() *probe {
	t, ok := g.pickTarget(allMethodNames, nil)
	if !ok {
		return nil
	}
	p := g.newProbe("assertion")
	p.feat("name:" + t.name)
	k := g.intn(1, 20, "k")
	alt := t.r.alt()
	d := dyn{t.ti, !t.r.inValueSet() || g.chance(50, "assert-dyn-ptr")}
	if !g.off["assert-nil-source"] && g.chance(8, "assert-nil") {
		d = dyn{-1, false}
		p.feat("assert:nil-source")
	}
	sts := g.staticFor(d)
	st := sts[0]
	if g.chance(45, "assert-static-iface") {
		st = sts[g.pick(len(sts), "assert-static")]
	}
	if strings.Contains(st.src, ".") || st.src == "error" {
		p.feat("assert:from-host-iface")
	}
	if len(st.names) > 0 {
		p.feat("assert:from-iface")
	} else {
		p.feat("assert:from-empty")
	}
	var good, bad []typeRef
	for _, tr := range g.allTypeRefs() {
		if !g.legalTarget(st, tr) {
			continue
		}
		if g.matches(tr, d) {
			// the result must give access to the method
			if tr.conc || contains(tr.names, t.name) && tr.alt == alt {
				good = append(good, tr)
			}
		} else {
			bad = append(bad, tr)
		}
	}
	fail := len(good) == 0 || (len(bad) > 0 && g.chance(25, "assert-fail"))
	var tr typeRef
	if fail {
		if len(bad) == 0 {
			return nil
		}
		tr = bad[g.pick(len(bad), "assert-target")]
		p.feat("assert:fail")
	} else {
		tr = good[g.pick(len(good), "assert-target")]
		p.feat("assert:ok")
		p.class(t.r, "assertion")
	}
	switch {
	case tr.conc && tr.d.Ptr:
		p.feat("assert:to-pointer")
	case tr.conc:
		p.feat("assert:to-struct")
	case strings.Contains(tr.src, ".") || tr.src == "error":
		p.feat("assert:to-host-iface")
	case strings.HasPrefix(tr.src, "interface"):
		p.feat("assert:to-anon-iface")
	default:
		p.feat("assert:to-user-iface")
	}
	if tr.alt || (alt && !tr.conc) {
		p.feat("altsig")
	}
	if tr.conc && !tr.d.Ptr && len(st.names) > 0 {
		for _, n := range st.names {
			if r := g.m.resolve(tr.d.Idx, n); r.OK && r.ptrRecv() && r.indirect() {
				p.feat("assert:ptr-method-via-embedded-pointer")
			}
		}
	}
	if tr.conc {
		for _, n := range st.names {
			if g.m.dfsDiffers(tr.d.Idx, n) {
				p.feat("dfs-mismatch")
			}
		}
	}
	if !tr.conc && d.Idx >= 0 && contains(tr.names, "Mb") && g.m.mixedAlt(d.Idx) {
		if g.m.Structs[d.Idx].decl("Mb") != nil {
			// the type's own method shadows the promoted ones: the flat merge of
			// the method set records it last, the recorded finding does not apply
			p.feat("altsig-mixed-own")
		} else {
			p.feat("altsig-mixed")
		}
	}
	if !tr.conc && d.Idx >= 0 {
		for _, n := range tr.names {
			if g.m.ambiguous(d.Idx, n) {
				p.feat("ambiguous-method")
			}
			if r := g.m.resolve(d.Idx, n); r.OK && (len(r.Path) > 0 || d.Ptr && !r.ptrRecv()) {
				p.feat("dyn-indirect-method")
			}
			if r := g.m.resolve(d.Idx, n); !d.Ptr && r.OK && !r.inValueSet() {
				p.feat("dyn-value-ptr-method")
			}
		}
	}
	two := g.chance(50, "assert-two")
	p.add("var e %s = %s", st.src, g.dynExpr(d, k))
	if two {
		p.feat("assert:two-result")
		p.add("v, ok := e.(%s)", tr.src)
		p.add("fmt.Println(%q, ok)", p.tag())
		switch {
		case tr.conc && tr.d.Ptr:
			g.dump(tr.d.Idx, "v")
		case tr.conc:
			g.dump(tr.d.Idx, "&v")
		default:
			p.add("fmt.Println(%q, v == nil)", p.tag())
		}
		if !fail {
			g.call("v."+t.name, "", t.name, alt)
			g.call("v."+t.name, "", t.name, alt)
		}
	} else {
		p.feat("assert:one-result")
		p.add("v := e.(%s)", tr.src)
		if fail {
			p.add("fmt.Println(%q, \"not reached?\", v == nil)", p.tag())
			if tr.conc && !tr.d.Ptr {
				// struct values cannot be compared with nil
				p.Lines[len(p.Lines)-1] = fmt.Sprintf("fmt.Println(%q, \"not reached?\", v.n%d)", p.tag(), tr.d.Idx)
			}
		} else {
			g.call("v."+t.name, "", t.name, alt)
			g.call("v."+t.name, "", t.name, alt)
			switch {
			case tr.conc && tr.d.Ptr:
				g.dump(tr.d.Idx, "v")
			case tr.conc:
				g.dump(tr.d.Idx, "&v")
			}
		}
	}
	return p
}

func (g *gen) probeTypeSwitch() *probe {
	t, ok := g.pickTarget(allMethodNames, nil)
	if !ok {
		return nil
	}
	p := g.newProbe("type-switch")
	p.feat("name:" + t.name)
	alt := t.r.alt()
	k := g.intn(1, 20, "k")
	main := dyn{t.ti, !t.r.inValueSet() || g.chance(50, "sw-dyn-ptr")}
	sts := g.staticFor(main)
	st := sts[0]
	if g.chance(40, "sw-static-iface") {
		st = sts[g.pick(len(sts), "sw-static")]
	}
	if strings.Contains(st.src, ".") || st.src == "error" {
		p.feat("sw:from-host-iface")
	}
	if len(st.names) > 0 {
		p.feat("sw:from-iface")
	} else {
		p.feat("sw:from-empty")
	}
	bind := g.chance(65, "sw-bind")
	if bind {
		p.feat("sw:bind")
	} else {
		p.feat("sw:nobind")
	}
	// candidate case types
	var cand []typeRef
	for _, tr := range g.allTypeRefs() {
		if !tr.conc && g.off["typeswitch-interface-case"] {
			continue
		}
		if g.legalTarget(st, tr) {
			cand = append(cand, tr)
		}
	}
	if g.off["typeswitch-interface-case"] {
		g.Excluded["typeswitch-interface-case"]++
	}
	// the clause for the main dynamic type, in a drawn position
	var mainRef typeRef
	for _, tr := range cand {
		if tr.conc && tr.d == main {
			mainRef = tr
		}
	}
	nclauses := g.intn(2, 5, "sw-nclauses")
	type clause struct {
		types []typeRef
		isNil bool
		deflt bool
	}
	used := map[string]bool{}
	var clauses []clause
	mainPos := g.pick(nclauses, "sw-main-pos")
	hasNil, hasDefault := false, false
	for c := 0; c < nclauses; c++ {
		if c == mainPos && mainRef.src != "" && !used[mainRef.src] {
			used[mainRef.src] = true
			clauses = append(clauses, clause{types: []typeRef{mainRef}})
			continue
		}
		switch r := g.intn(0, 99, "sw-clause-kind"); {
		case r < 10 && !hasNil:
			hasNil = true
			clauses = append(clauses, clause{isNil: true})
		case r < 25 && !hasDefault:
			hasDefault = true
			clauses = append(clauses, clause{deflt: true})
		default:
			n := 1
			if g.chance(35, "sw-multi") {
				n = g.intn(2, 3, "sw-multi-n")
			}
			var cl clause
			for j := 0; j < n; j++ {
				tr := cand[g.pick(len(cand), "sw-case-type")]
				if used[tr.src] {
					continue
				}
				used[tr.src] = true
				cl.types = append(cl.types, tr)
			}
			if n > 1 && !hasNil && g.chance(20, "sw-multi-nil") {
				hasNil = true
				cl.isNil = true
			}
			if len(cl.types) > 0 {
				clauses = append(clauses, cl)
			}
		}
	}
	if !hasDefault && g.chance(50, "sw-default-last") {
		hasDefault = true
		clauses = append(clauses, clause{deflt: true})
	}
	if len(clauses) == 0 {
		clauses = append(clauses, clause{deflt: true})
	}
	for i, cl := range clauses {
		if cl.deflt && i != len(clauses)-1 {
			p.feat("sw:default-not-last")
		}
		if len(cl.types)+btoi(cl.isNil) > 1 {
			p.feat("sw:multi")
		}
		if cl.isNil {
			p.feat("sw:nil-case")
		}
		for _, tr := range cl.types {
			switch {
			case tr.alt:
				p.feat("altsig", "sw:case-iface")
			case tr.conc:
				p.feat("sw:case-concrete")
				for _, n := range st.names {
					if r := g.m.resolve(tr.d.Idx, n); !tr.d.Ptr && r.OK && r.ptrRecv() && r.indirect() {
						p.feat("sw:ptr-method-via-embedded-pointer")
					}
					if g.m.dfsDiffers(tr.d.Idx, n) {
						p.feat("dfs-mismatch")
					}
				}
			case strings.Contains(tr.src, ".") || tr.src == "error":
				p.feat("sw:case-host-iface")
			default:
				p.feat("sw:case-iface")
			}
		}
	}
	if p.has("sw:default-not-last") && g.off["typeswitch-default-not-last"] {
		// move the default clause to the end
		var cs []clause
		var d *clause
		for i := range clauses {
			if clauses[i].deflt {
				d = &clauses[i]
			} else {
				cs = append(cs, clauses[i])
			}
		}
		clauses = append(cs, *d)
		p.Feats = remove(p.Feats, "sw:default-not-last")
		g.Excluded["typeswitch-default-not-last"]++
	}
	// the function
	fn := fmt.Sprintf("sw%d", p.ID)
	var b strings.Builder
	fmt.Fprintf(&b, "func %s(e %s) {\n", fn, st.src)
	if bind {
		b.WriteString("\tswitch v := e.(type) {\n")
	} else {
		b.WriteString("\tswitch e.(type) {\n")
	}
	save := p.Lines
	for ci, cl := range clauses {
		switch {
		case cl.deflt:
			b.WriteString("\tdefault:\n")
		default:
			var names []string
			for _, tr := range cl.types {
				names = append(names, tr.src)
			}
			if cl.isNil {
				names = append(names, "nil")
			}
			fmt.Fprintf(&b, "\tcase %s:\n", strings.Join(names, ", "))
		}
		fmt.Fprintf(&b, "\t\tfmt.Println(%q, \"clause\", %d)\n", p.tag(), ci)
		if bind {
			single := len(cl.types) == 1 && !cl.isNil && !cl.deflt
			called := false
			if single {
				tr := cl.types[0]
				// call a method through the bound variable when its type has it
				var callable bool
				if tr.conc {
					r := g.m.resolve(tr.d.Idx, t.name)
					callable = r.OK && r.alt() == alt && !g.bad(tr.d.Idx, t.name)
				} else {
					callable = contains(tr.names, t.name) && tr.alt == alt
				}
				if callable {
					p.Lines = nil
					g.call("v."+t.name, "", t.name, alt)
					g.call("v."+t.name, "", t.name, alt)
					if tr.conc && tr.d.Ptr {
						g.dump(tr.d.Idx, "v")
					} else if tr.conc {
						g.dump(tr.d.Idx, "&v")
					}
					for _, l := range p.Lines {
						b.WriteString("\t\t" + l + "\n")
					}
					called = true
				}
			}
			if !called {
				b.WriteString("\t\t_ = v\n")
			}
		}
	}
	b.WriteString("\t}\n}\n")
	p.Lines = save
	p.Decls = append(p.Decls, b.String())
	// the values handed to the switch
	vals := []dyn{main}
	nv := g.intn(1, 3, "sw-nvals")
	for j := 0; j < nv; j++ {
		var d dyn
		switch r := g.intn(0, 9, "sw-val-kind"); {
		case r == 0:
			d = dyn{-1, false}
		default:
			d = dyn{g.pick(len(g.m.Structs), "sw-val-type"), g.chance(50, "sw-val-ptr")}
		}
		if d.Idx >= 0 && len(st.names) > 0 && !g.m.implements(d.Idx, d.Ptr, st.names) {
			continue
		}
		vals = append(vals, d)
	}
	covered := false
	for j, d := range vals {
		if d.Idx < 0 {
			p.feat("sw:nil-value")
		}
		p.add("%s(%s)", fn, g.dynExpr(d, k+j))
		// which clause wins (for the class histogram only)
		for _, cl := range clauses {
			hit := cl.deflt && false
			for _, tr := range cl.types {
				if g.matches(tr, d) {
					hit = true
				}
			}
			if cl.isNil && d.Idx < 0 {
				hit = true
			}
			if hit {
				if bind && len(cl.types) == 1 && !cl.isNil && d.Idx >= 0 {
					if r := g.m.resolve(d.Idx, t.name); r.OK && r.alt() == alt {
						tr := cl.types[0]
						if tr.conc || contains(tr.names, t.name) && tr.alt == alt {
							p.class(r, "type-switch")
							covered = true
						}
					}
				}
				break
			}
		}
	}
	_ = covered
	return p
}

func btoi(b bool) int {
	if b {
		return 1
	}
	return 0
}

func remove(s []string, x string) []string {
	var out []string
	for _, y := range s {
		if y != x {
			out = append(out, y)
		}
	}
	return out
}

// hostKinds lists the host experiments with the method group they need.
var hostKinds = []struct{ kind, primary string }{
	{"println", "String"}, {"println", "Error"}, {"sprintf", "String"}, {"sprintf", "Error"},
	{"stringer-var", "String"}, {"error-var", "Error"},
	{"errors-unwrap", "Unwrap"}, {"errors-is", "Unwrap"}, {"errors-as", "Error"}, {"errorf-w", "Error"},
	{"sort", "Less"}, {"sort-stable", "Less"}, {"sort-reverse", "Less"},
	{"readall", "Read"}, {"copy-from", "Read"}, {"bufio-reader", "Read"},
	{"copy-to", "Write"}, {"fprintf", "Write"}, {"bufio-writer", "Write"}, {"writestring", "Write"},
}

func groupOf(primary string) []string {
	switch primary {
	case "Less":
		return hostGroups["sort"]
	case "Unwrap":
		return hostGroups["unwrap"]
	}
	return []string{primary}
}

func (g *gen) probeHost() *probe {
	primaries := []string{"String", "Error", "Unwrap", "Read", "Write", "Less"}
	t, ok := g.pickTarget(primaries, func(t target) bool {
		return g.m.implements(t.ti, true, groupOf(t.name))
	})
	if !ok {
		return nil
	}
	var kinds []string
	for _, hk := range hostKinds {
		if hk.primary == t.name {
			kinds = append(kinds, hk.kind)
		}
	}
	hk := struct{ kind, primary string }{kinds[g.pick(len(kinds), "host-kind")], t.name}
	names := groupOf(hk.primary)
	p := g.newProbe("host")
	p.feat("host:"+hk.kind, "name:"+hk.primary)
	p.class(t.r, "host")
	k := g.intn(1, 20, "k")
	T := fmt.Sprintf("T%d", t.ti)
	ptr := !g.m.implements(t.ti, false, names) || g.chance(50, "host-ptr-val")
	val := "x"
	if ptr {
		val = "&x"
		p.feat("host:holds-ptr")
	} else {
		p.feat("host:holds-value")
	}
	d := dyn{t.ti, ptr}
	// a value that is both error and Stringer prints through Error natively
	if (hk.primary == "String" || hk.primary == "Error") && g.m.implements(t.ti, ptr, []string{"String"}) && g.m.implements(t.ti, ptr, []string{"Error"}) {
		p.feat("host:error-and-stringer")
	}
	for _, hn := range []string{"String", "Error", "Write", "Read"} {
		// broad on purpose: any reachable method of that name, whatever its receiver
		if hn != hk.primary && (g.m.resolve(t.ti, hn).OK || g.m.ambiguous(t.ti, hn)) {
			p.feat("host:also-" + hn)
		}
	}
	_ = d
	p.add("x := mk%s(%d)", T, k)
	tag := p.tag()
	switch hk.kind {
	case "println":
		p.add("fmt.Println(%q, %s)", tag, val)
		p.add("fmt.Println(%q, %s, %s)", tag, val, val)
	case "sprintf":
		p.add("s := fmt.Sprintf(\"%%v|%%s|%%d|%%5v\", %s, %s, 7, %s)", val, val, val)
		p.add("fmt.Println(%q, s)", tag)
	case "stringer-var":
		p.add("var i fmt.Stringer = %s", val)
		p.add("fmt.Println(%q, i)", tag)
		p.add("fmt.Println(%q, i.String())", tag)
		p.add("s := fmt.Sprint(i, 3, i)")
		p.add("fmt.Println(%q, s)", tag)
	case "error-var":
		p.add("var i error = %s", val)
		p.add("fmt.Println(%q, i)", tag)
		p.add("fmt.Println(%q, i.Error())", tag)
		p.add("s := fmt.Sprintf(\"%%v/%%s\", i, i)")
		p.add("fmt.Println(%q, s)", tag)
	case "errors-unwrap":
		p.add("var i error = %s", val)
		p.add("u := errors.Unwrap(i)")
		p.add("fmt.Println(%q, u == nil, u == errBase, u == errOther)", tag)
	case "errors-is":
		p.add("var i error = %s", val)
		p.add("fmt.Println(%q, errors.Is(i, errBase), errors.Is(i, errOther), errors.Is(i, i))", tag)
	case "errors-as":
		p.add("var i error = fmt.Errorf(\"w: %%w\", %s)", val)
		if ptr {
			p.add("var tg *%s", T)
			p.add("ok := errors.As(i, &tg)")
			p.add("fmt.Println(%q, ok, tg == &x)", tag)
		} else {
			p.add("var tg %s", T)
			p.add("ok := errors.As(i, &tg)")
			p.add("fmt.Println(%q, ok, dT%d(&tg))", tag, t.ti)
		}
	case "errorf-w":
		p.add("w := fmt.Errorf(\"wrap %%d: %%w\", 1, %s)", val)
		p.add("fmt.Println(%q, w.Error())", tag)
		p.add("u := errors.Unwrap(w)")
		p.add("fmt.Println(%q, u != nil)", tag)
		p.add("fmt.Println(%q, u.Error())", tag)
	case "sort":
		p.add("sort.Sort(%s)", val)
		p.add("fmt.Println(%q, sort.IsSorted(%s))", tag, val)
	case "sort-stable":
		p.add("sort.Stable(%s)", val)
	case "sort-reverse":
		p.add("sort.Sort(sort.Reverse(%s))", val)
	case "readall":
		rd := val
		if !t.r.ptrRecv() || g.chance(40, "limit") {
			rd = fmt.Sprintf("io.LimitReader(%s, %d)", val, g.intn(1, 30, "limit-n"))
			p.feat("host:limit-reader")
		}
		p.add("b, err := io.ReadAll(%s)", rd)
		p.add("fmt.Println(%q, string(b), err == nil)", tag)
	case "copy-from":
		rd := val
		if !t.r.ptrRecv() || g.chance(40, "limit") {
			rd = fmt.Sprintf("io.LimitReader(%s, %d)", val, g.intn(1, 30, "limit-n"))
			p.feat("host:limit-reader")
		}
		p.add("var buf bytes.Buffer")
		p.add("n, err := io.Copy(&buf, %s)", rd)
		p.add("fmt.Println(%q, n, buf.String(), err == nil)", tag)
	case "bufio-reader":
		p.add("br := bufio.NewReader(io.LimitReader(%s, %d))", val, g.intn(1, 30, "limit-n"))
		p.feat("host:limit-reader")
		p.add("l1, err := br.ReadString(',')")
		p.add("fmt.Println(%q, l1, err == nil)", tag)
		p.add("c, err := br.ReadByte()")
		p.add("fmt.Println(%q, c, err == nil)", tag)
	case "copy-to":
		p.add("n, err := io.Copy(%s, strings.NewReader(\"copy-data\"))", val)
		p.add("fmt.Println(%q, n, err == nil)", tag)
	case "fprintf":
		p.add("n, err := fmt.Fprintf(%s, \"%%d-%%s;\", 42, \"fp\")", val)
		p.add("fmt.Println(%q, n, err == nil)", tag)
		p.add("fmt.Fprintln(%s, \"ln\", 1)", val)
	case "bufio-writer":
		p.add("bw := bufio.NewWriter(%s)", val)
		p.add("bw.WriteString(\"buffered\")")
		p.add("bw.WriteByte('!')")
		g.dump(t.ti, "&x")
		p.add("err := bw.Flush()")
		p.add("fmt.Println(%q, err == nil)", tag)
	case "writestring":
		p.add("n, err := io.WriteString(%s, \"ws\")", val)
		p.add("fmt.Println(%q, n, err == nil)", tag)
	}
	g.dump(t.ti, "&x")
	return p
}

// ---------------------------------------------------------------------------

var forms = []string{"direct", "method-value", "method-expr", "interface", "assertion", "type-switch", "host"}

// probeComposed passes a value to io.Copy which implements io.Reader (or
// io.Writer) and possibly io.WriterTo (io.ReaderFrom): compiled code probes the
// optional interface, which the interpreter serves through a composed wrapper.
// The required method is declared by the type, promoted from an embedded
// interpreted struct, from an embedded host interface (io.Reader, io.Writer) or
// from an embedded pointer to a host struct (*strings.Reader, *bytes.Buffer);
// the optional method is declared by the type, promoted from an embedded
// interpreted struct, or absent.
func (g *gen) probeComposed() *probe {
	p := g.newProbe("composed")
	p.Nontrivial = true
	side := []string{"reader", "writer"}[g.pick(2, "cw-side")]
	base := []string{"own", "emb-src", "emb-host-iface", "emb-host-ptr"}[g.pick(4, "cw-base")]
	extra := []string{"own", "emb-src", "none"}[g.pick(3, "cw-extra")]
	ptr := g.chance(50, "cw-ptr")
	p.feat("cw:"+side, "cw-base:"+base, "cw-extra:"+extra)
	n := fmt.Sprintf("CW%d", p.ID)
	tag := p.tag()
	var d strings.Builder
	var fields, lit []string
	if side == "reader" {
		switch base {
		case "own":
			fields = append(fields, "s string", "pos *int")
			lit = append(lit, "s: \"data-own\"", "pos: new(int)")
			fmt.Fprintf(&d, "func (r %s) Read(b []byte) (int, error) {\n\tif *r.pos >= len(r.s) {\n\t\treturn 0, io.EOF\n\t}\n\tk := copy(b, r.s[*r.pos:])\n\t*r.pos += k\n\treturn k, nil\n}\n\n", n)
		case "emb-src":
			fmt.Fprintf(&d, "type %sIn struct {\n\ts string\n\tpos *int\n}\n\nfunc (r %sIn) Read(b []byte) (int, error) {\n\tif *r.pos >= len(r.s) {\n\t\treturn 0, io.EOF\n\t}\n\tk := copy(b, r.s[*r.pos:])\n\t*r.pos += k\n\treturn k, nil\n}\n\n", n, n)
			fields = append(fields, n+"In")
			lit = append(lit, fmt.Sprintf("%sIn: %sIn{s: \"data-emb\", pos: new(int)}", n, n))
		case "emb-host-iface":
			fields = append(fields, "io.Reader")
			lit = append(lit, "Reader: strings.NewReader(\"data-iface\")")
		default:
			fields = append(fields, "*strings.Reader")
			lit = append(lit, "Reader: strings.NewReader(\"data-hostptr\")")
		}
		switch extra {
		case "own":
			fmt.Fprintf(&d, "func (r %s) WriteTo(w io.Writer) (int64, error) {\n\tk, err := io.WriteString(w, \"WT-%s\")\n\treturn int64(k), err\n}\n\n", n, tag)
		case "emb-src":
			fmt.Fprintf(&d, "type %sX struct{ m string }\n\nfunc (x %sX) WriteTo(w io.Writer) (int64, error) {\n\tk, err := io.WriteString(w, x.m)\n\treturn int64(k), err\n}\n\n", n, n)
			fields = append(fields, n+"X")
			lit = append(lit, fmt.Sprintf("%sX: %sX{\"WTX-%s\"}", n, n, tag))
		}
	} else {
		switch base {
		case "own":
			fields = append(fields, "got *[]string")
			lit = append(lit, "got: new([]string)")
			fmt.Fprintf(&d, "func (w %s) Write(b []byte) (int, error) {\n\t*w.got = append(*w.got, string(b))\n\treturn len(b), nil\n}\n\n", n)
		case "emb-src":
			fmt.Fprintf(&d, "type %sIn struct{ got *[]string }\n\nfunc (w %sIn) Write(b []byte) (int, error) {\n\t*w.got = append(*w.got, string(b))\n\treturn len(b), nil\n}\n\n", n, n)
			fields = append(fields, n+"In")
			lit = append(lit, fmt.Sprintf("%sIn: %sIn{got: new([]string)}", n, n))
		case "emb-host-iface":
			fields = append(fields, "io.Writer", "buf *bytes.Buffer")
		default:
			fields = append(fields, "*bytes.Buffer")
			lit = append(lit, "Buffer: &bytes.Buffer{}")
		}
		switch extra {
		case "own":
			fmt.Fprintf(&d, "func (w %s) ReadFrom(r io.Reader) (int64, error) {\n\tb, err := io.ReadAll(r)\n\tfmt.Println(\"RF-%s\", string(b))\n\treturn int64(len(b)), err\n}\n\n", n, tag)
		case "emb-src":
			fmt.Fprintf(&d, "type %sX struct{ m string }\n\nfunc (x %sX) ReadFrom(r io.Reader) (int64, error) {\n\tb, err := io.ReadAll(r)\n\tfmt.Println(x.m, string(b))\n\treturn int64(len(b)), err\n}\n\n", n, n)
			fields = append(fields, n+"X")
			lit = append(lit, fmt.Sprintf("%sX: %sX{\"RFX-%s\"}", n, n, tag))
		}
	}
	decl := "type " + n + " struct {\n"
	for _, f := range fields {
		decl += "\t" + f + "\n"
	}
	decl += "}\n\n" + d.String()
	p.Decls = append(p.Decls, decl)
	val := "x"
	if ptr {
		val = "&x"
		p.feat("cw:pointer")
	}
	if side == "writer" && base == "emb-host-iface" {
		p.add("bb := &bytes.Buffer{}")
		lit = append(lit, "Writer: bb", "buf: bb")
	}
	p.add("x := %s{%s}", n, strings.Join(lit, ", "))
	if side == "reader" {
		p.add("var buf bytes.Buffer")
		p.add("k, err := io.Copy(&buf, %s)", val)
		p.add("fmt.Println(%q, k, buf.String(), err == nil)", tag)
		p.add("b2, err := io.ReadAll(%s)", val)
		p.add("fmt.Println(%q, string(b2), err == nil)", tag)
	} else {
		p.add("k, err := io.Copy(%s, strings.NewReader(\"payload-%s\"))", val, tag)
		p.add("fmt.Println(%q, k, err == nil)", tag)
		switch base {
		case "own":
			p.add("fmt.Println(%q, *x.got)", tag)
		case "emb-src":
			p.add("fmt.Println(%q, *x.%sIn.got)", tag, n)
		case "emb-host-iface":
			p.add("fmt.Println(%q, x.buf.String())", tag)
		default:
			p.add("fmt.Println(%q, x.Buffer.String())", tag)
		}
		p.add("fmt.Fprintf(%s, \"%%d!\", 7)", val)
	}
	return p
}

// formDraw weights the forms: those that lose probes to known-finding
// switches or that only count successful cases get a larger share.
var formDraw = []string{"direct", "direct", "method-value", "method-value", "method-expr", "method-expr", "interface", "interface", "interface",
	"assertion", "assertion", "assertion", "assertion", "assertion", "type-switch", "type-switch", "type-switch", "host", "host", "host", "composed", "composed"}

// generate draws one program.
func generate(t *rapid.T, off map[string]bool) (*program, map[string]int) {
	g := &gen{t: t, off: off, Excluded: map[string]int{}}
	g.genModel()
	pr := &program{M: g.m}
	n := g.intn(10, 16, "nprobes")
	for i := 0; i < n; i++ {
		form := formDraw[g.pick(len(formDraw), "form")]
		// a probe that cannot be built or that a known finding blocks is
		// redrawn (same form) a few times, so that the form keeps its share
		for try := 0; try < 6; try++ {
			var p *probe
			switch form {
			case "direct":
				p = g.probeDirect()
			case "method-value":
				p = g.probeMethodValue()
			case "method-expr":
				p = g.probeMethodExpr()
			case "interface":
				p = g.probeInterface()
			case "assertion":
				p = g.probeAssertion()
			case "type-switch":
				p = g.probeTypeSwitch()
			case "host":
				p = g.probeHost()
			case "composed":
				p = g.probeComposed()
			}
			if p == nil {
				continue
			}
			if key := blockedBy(p, off); key != "" {
				g.Excluded[key]++
				g.pid--
				continue
			}
			sort.Strings(p.Feats)
			pr.Probes = append(pr.Probes, p)
			break
		}
	}
	return pr, g.Excluded
}
