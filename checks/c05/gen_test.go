package c05

import (
	"fmt"
	"os"
	"testing"

	"pgregory.net/rapid"

	"verif/internal/progen"
)

// TestDump writes a few generated programs to $C05_DUMP (development aid).
func TestDump(t *testing.T) {
	dir := os.Getenv("C05_DUMP")
	if dir == "" {
		t.Skip("C05_DUMP not set")
	}
	n, bad := 0, 0
	rapid.Check(t, func(rt *rapid.T) {
		pr, _ := generate(rt, switches())
		src := pr.render(nil)
		n++
		if e := progen.TypeCheck(src); e != "" {
			bad++
			fmt.Println("ILL-TYPED:", e)
			os.WriteFile(fmt.Sprintf("%s/bad%03d.go", dir, n), []byte(src), 0o644)
			return
		}
		if n <= 5 {
			os.WriteFile(fmt.Sprintf("%s/g%03d.go", dir, n), []byte(src), 0o644)
		}
	})
	fmt.Println("programs", n, "ill-typed", bad)
}
