// Package c05 checks that method calls and interface operations dispatch as
// in compiled Go (differential against the native toolchain, own generator).
package c05

import (
	"encoding/json"
	"fmt"
	"os"
	"path/filepath"
	"sort"
	"strconv"
	"strings"
	"time"

	"pgregory.net/rapid"

	"verif/internal/diff"
	"verif/internal/oracle"
	"verif/internal/progen"
	"verif/internal/vf"
	"verif/internal/yrun"
)

// Case is the replayable form of a failing program.
type Case struct {
	Src string `json:"src"`
	// Key names the known finding a stored replay belongs to.
	Key   string   `json:"key,omitempty"`
	Form  string   `json:"form,omitempty"`
	Feats []string `json:"features,omitempty"`
}

// knownRules maps a known-finding key to the probe features that, when all
// present, make the generator drop the probe. Keys that switch a part of the
// type hierarchy off are listed in modelSwitches.
var knownRules = map[string][][]string{
	"mexpr-stored":               {{"form:method-expr", "mexpr:stored"}},
	"mexpr-ptrtype-value-method": {{"form:method-expr", "mexpr:ptr-type", "recv:value"}},
	"mexpr-promoted":             {{"form:method-expr", "emb:value"}, {"form:method-expr", "emb:pointer"}},
	"mexpr-via-interface":        {{"form:method-expr", "emb:iface"}},
	"assert-fail-to-iface-no-panic": {
		{"assert:fail", "assert:one-result", "assert:to-user-iface", "!assert:nil-source"},
		{"assert:fail", "assert:one-result", "assert:to-host-iface", "!assert:nil-source"},
		{"assert:fail", "assert:one-result", "assert:to-anon-iface", "!assert:nil-source"}},
	"assert-nil-source-to-iface-commaok": {
		{"assert:nil-source", "assert:two-result", "assert:to-user-iface"},
		{"assert:nil-source", "assert:two-result", "assert:to-host-iface"},
		{"assert:nil-source", "assert:two-result", "assert:to-anon-iface"}},
	"assert-empty-to-source-iface": {
		{"form:assertion", "assert:from-empty", "assert:to-user-iface", "!assert:nil-source"},
		{"form:assertion", "assert:from-empty", "assert:to-anon-iface", "!assert:nil-source"},
		{"iface:any-assert", "iface:user"}, {"iface:any-assert", "iface:anon"}},
	"nil-pointer-in-host-iface-becomes-nil": {{"iface:nil-ptr-in-iface", "iface:host"}},
	"fmt-concrete-error-not-invoked":        {{"host:println", "name:Error"}, {"host:sprintf", "name:Error"}, {"host:errorf-w"}},
	"fmt-error-and-stringer-precedence": {{"host:println", "host:error-and-stringer"}, {"host:sprintf", "host:error-and-stringer"},
		{"host:stringer-var", "host:error-and-stringer"}},
	"errors-unwrap-not-visible":                 {{"host:errors-unwrap"}, {"host:errors-is"}},
	"errors-as-interpreted-target":              {{"host:errors-as"}},
	"fprintf-writer-also-stringer":              {{"host:fprintf", "host:also-String"}},
	"methodset-ptr-method-via-embedded-pointer": {{"assert:ptr-method-via-embedded-pointer"}},
	"assert-value-implements-ptr-methods":       {{"dyn-value-ptr-method"}},
	"promotion-depth-first":                     {{"dfs-mismatch"}},
	"methodset-flat-merge-signature":            {{"altsig-mixed"}},
	"composed-wrapper-optional-promoted-next-to-host-embedding": {{"form:composed", "cw-extra:emb-src", "cw-base:emb-host-iface"},
		{"form:composed", "cw-extra:emb-src", "cw-base:emb-host-ptr"}},
	"composed-wrapper-own-optional-through-pointer": {{"form:composed", "cw-base:emb-host-iface", "cw-extra:own", "cw:pointer", "cw:reader"}},
	"ambiguous-promoted-method-in-method-set":   {{"ambiguous-method"}},
	"assert-empty-to-host-iface-indirect-method": {{"form:assertion", "assert:from-empty", "assert:to-host-iface", "dyn-indirect-method"},
		{"iface:any-assert", "iface:host", "dyn-indirect-method"}},
	"assert-host-iface-to-iface": {
		{"form:assertion", "assert:from-host-iface", "assert:to-user-iface", "!assert:nil-source"},
		{"form:assertion", "assert:from-host-iface", "assert:to-anon-iface", "!assert:nil-source"},
		{"form:assertion", "assert:from-host-iface", "assert:to-host-iface", "!assert:nil-source"}},
	"typeswitch-empty-nobind-unwrapped-value": {{"sw:from-empty", "sw:nobind"}},
	"typeswitch-interface-case":               {{"sw:case-iface"}, {"sw:case-host-iface"}},
	"typeswitch-nil-case-nonempty-iface":      {{"sw:from-iface", "sw:nil-case", "sw:nil-value"}},
}

// modelSwitches are known-finding keys that turn off a feature of the
// generated hierarchy or of a probe variant directly (gen.off).
var modelSwitches = []string{"altsig", "promoted-through-embedded-iface", "promotion-depth-first", "mv-value-receiver-bound-late",
	"iface-holds-value-aliases-variable", "inner-call", "nil-embedded-pointer", "nil-receiver",
	"nil-interface-call", "nil-pointer-in-interface", "assert-nil-source", "typeswitch-default-not-last"}

func blockedBy(p *probe, off map[string]bool) string {
	var keys []string
	for k := range knownRules {
		keys = append(keys, k)
	}
	sort.Strings(keys)
	for _, k := range keys {
		if !off[k] {
			continue
		}
		for _, alt := range knownRules[k] {
			all := true
			for _, f := range alt {
				neg := strings.HasPrefix(f, "!")
				if neg {
					f = f[1:]
				}
				if p.has(f) == neg {
					all = false
					break
				}
			}
			if all {
				return k
			}
		}
	}
	return ""
}

func switches() map[string]bool {
	off := map[string]bool{}
	for k := range knownRules {
		if vf.IsKnown("C05", k) {
			off[k] = true
		}
	}
	for _, k := range modelSwitches {
		if vf.IsKnown("C05", k) {
			off[k] = true
		}
	}
	return off
}

// segments splits an output into the parts printed by each probe.
func segments(out string) (pre string, seg map[string]string, order []string) {
	seg = map[string]string{}
	cur := ""
	var b strings.Builder
	flush := func() {
		if cur == "" {
			pre = b.String()
		} else {
			seg[cur] += b.String()
		}
		b.Reset()
	}
	for _, l := range strings.SplitAfter(out, "\n") {
		if strings.HasPrefix(l, "== p") {
			flush()
			cur = strings.TrimSpace(strings.TrimPrefix(l, "== "))
			order = append(order, cur)
			continue
		}
		b.WriteString(l)
	}
	flush()
	return
}

type failure struct {
	probe *probe
	sig   string
	msg   string
	src   string
}

func probeSig(base string, p *probe) string {
	var fs []string
	for _, f := range p.Feats {
		if strings.HasPrefix(f, "name:") || strings.HasPrefix(f, "form:") {
			continue
		}
		fs = append(fs, f)
	}
	return base + " | " + p.Form + " | " + strings.Join(fs, " ")
}

type shardState struct {
	ctx   *vf.Ctx
	batch *oracle.Batch
	pool  *yrun.Pool
}

// judge compares one source on both sides.
func (s *shardState) judge(src string) (diff.Verdict, *oracle.Result, yrun.Outcome) {
	_, nat := s.batch.Ensure(oracle.Single(src))
	out := s.pool.Run(&yrun.Job{Src: src}, 3*time.Minute)
	return diff.Compare(nat, &out), nat, out
}

// attribute finds the probes responsible for a disagreement. When the
// interpreter ran through, the outputs are compared probe by probe (probes
// are independent); otherwise every probe is run on its own.
func (s *shardState) attribute(pr *program, v diff.Verdict, nat *oracle.Result, out *yrun.Outcome, all bool) []failure {
	var fails []failure
	single := func(p *probe) *failure {
		src := pr.render(map[int]bool{p.ID: true})
		if progen.TypeCheck(src) != "" {
			return nil
		}
		v1, _, _ := s.judge(src)
		if v1.Sig == "" {
			return nil
		}
		return &failure{p, probeSig(v1.Sig, p), v1.Msg, src}
	}
	if out.Class == yrun.OK || out.Class == yrun.Panic {
		_, ns, _ := segments(nat.Stdout)
		_, ys, _ := segments(out.Stdout)
		for _, p := range pr.Probes {
			if ns[p.tag()] == ys[p.tag()] {
				continue
			}
			if f := single(p); f != nil {
				fails = append(fails, *f)
			} else {
				fails = append(fails, failure{p, probeSig(v.Sig+"(in context)", p), v.Msg, ""})
			}
			if !all {
				return fails
			}
		}
		if len(fails) > 0 {
			return fails
		}
	}
	for _, p := range pr.Probes {
		if f := single(p); f != nil {
			fails = append(fails, *f)
			if !all {
				return fails
			}
		}
	}
	return fails
}

var gridRecv = []string{"value", "pointer"}
var gridEmb = []string{"none", "value", "pointer"}

func run(ctx *vf.Ctx) {
	off := switches()
	for k := range off {
		ctx.Excluded("switch:" + k)
	}
	batch, err := oracle.NewBatch(filepath.Join(ctx.Scratch, "oracle"))
	if err != nil {
		ctx.Inconclusive("oracle: %v", err)
		return
	}
	illTyped := 0
	illMsg := ""
	ctx.RapidCollect("gen", 0, ctx.Cases, func(t *rapid.T) {
		pr, _ := generate(t, off)
		src := pr.render(nil)
		if e := progen.TypeCheck(src); e != "" {
			illTyped++
			if illMsg == "" {
				illMsg = e
			}
			ctx.Class("generator-ill-typed")
			if ctx.Survey {
				ctx.Note("ill-typed: %s", e)
			}
			return
		}
		batch.Add(oracle.Single(src))
	})
	if illTyped*100 > ctx.Cases {
		ctx.Inconclusive("generator produced %d ill-typed programs of %d (first: %s)", illTyped, ctx.Cases, illMsg)
		return
	}
	if err := batch.Build(); err != nil {
		ctx.Inconclusive("native build: %v", err)
		return
	}
	pool := yrun.NewPool(1, filepath.Join(ctx.Scratch, "workers"))
	defer pool.Close()
	st := &shardState{ctx, batch, pool}
	discards := 0
	generated := map[string]int{}
	dropped := map[string]int{}
	ctx.Rapid("diff", 0, ctx.Cases, shrinkTime(ctx), func(t *rapid.T) {
		pr, excl := generate(t, off)
		src := pr.render(nil)
		if progen.TypeCheck(src) != "" {
			ctx.Done()
			return
		}
		for k, n := range excl {
			dropped[k] += n
		}
		v, nat, out := st.judge(src)
		ctx.Eval()
		for _, p := range pr.Probes {
			for _, c := range p.Classes {
				generated[c]++
			}
		}
		switch {
		case v.Inconclusive != "":
			ctx.Inconclusive("%s", v.Inconclusive)
		case v.Discard != "":
			discards++
			ctx.Class("discard:" + v.Discard)
		case v.Sig != "":
			fails := st.attribute(pr, v, nat, &out, ctx.Survey)
			if len(fails) == 0 {
				ctx.CaseFail(t, v.Sig+" | whole program", v.Msg, Case{Src: src})
				break
			}
			for _, f := range fails {
				c := Case{Src: f.src, Form: f.probe.Form, Feats: f.probe.Feats}
				if c.Src == "" {
					c.Src = src
				}
				ctx.CaseFail(t, f.sig, f.msg, c)
			}
		default:
			nt := false
			for _, p := range pr.Probes {
				ctx.Class("form:" + p.Form)
				for _, c := range p.Classes {
					ctx.Class(c)
				}
				for _, f := range p.Feats {
					if !strings.HasPrefix(f, "name:") && !strings.HasPrefix(f, "form:") && !strings.HasPrefix(f, "recv:") && !strings.HasPrefix(f, "emb:") {
						ctx.Class("feat:" + f)
					}
				}
				if p.Nontrivial {
					nt = true
				}
			}
			if nt {
				ctx.Nontrivial(src)
			}
			ctx.Sample(map[string]any{"src": src, "stdout_lines": strings.Count(nat.Stdout, "\n"), "probes": len(pr.Probes)}, 1)
		}
		ctx.Done()
	})
	for k, n := range dropped {
		for i := 0; i < n; i++ {
			ctx.Excluded(k)
		}
	}
	if discards*50 > ctx.Cases && ctx.Cases >= 50 {
		ctx.Inconclusive("%d of %d cases discarded (native side)", discards, ctx.Cases)
	}
	// generator self-check: every cell of the stated distribution is hit.
	// Large shards check themselves; in small runs (quick tier) shard 0
	// regenerates the programs of all shards (generation only) and checks the
	// distribution of the whole run.
	if !ctx.Survey {
		switch {
		case ctx.Cases >= 200:
			selfCheck(ctx, generated, off, fmt.Sprintf("shard %d", ctx.Shard))
		case ctx.Shard == 0:
			total := ctx.Check.Cases[ctx.Tier]
			if v := os.Getenv("VERIF_CASES"); v != "" {
				if n, err := strconv.Atoi(v); err == nil {
					total = n
				}
			}
			if total >= 100 {
				all := map[string]int{}
				for i := 0; i < ctx.NShards; i++ {
					cases := total / ctx.NShards
					if i < total%ctx.NShards {
						cases++
					}
					tmp := vf.NewCtx(ctx.Check, ctx.Tier, ctx.Seed, i, ctx.NShards, cases, ctx.Scratch)
					tmp.RapidCollect("gen", 0, cases, func(t *rapid.T) {
						pr, _ := generate(t, off)
						for _, p := range pr.Probes {
							for _, c := range p.Classes {
								all[c]++
							}
						}
					})
				}
				selfCheck(ctx, all, off, "the whole run")
			}
		}
	}
}

func selfCheck(ctx *vf.Ctx, generated map[string]int, off map[string]bool, where string) {
	var empty []string
	for _, r := range gridRecv {
		for _, e := range gridEmb {
			for _, f := range forms {
				c := r + "/" + e + "/" + f
				if generated[c] == 0 && !cellExcluded(c, off) {
					empty = append(empty, c)
				}
			}
		}
	}
	if len(empty) > 0 {
		ctx.Inconclusive("generator self-check: classes never generated in %s: %s", where, strings.Join(empty, ", "))
	}
}

// cellExcluded: the known-finding switches remove the whole cell.
func cellExcluded(cell string, off map[string]bool) bool {
	parts := strings.Split(cell, "/")
	for k, alts := range knownRules {
		if !off[k] {
			continue
		}
		for _, alt := range alts {
			ok := true
			for _, f := range alt {
				switch {
				case f == "form:"+parts[2], f == "recv:"+parts[0], f == "emb:"+parts[1]:
				default:
					ok = false
				}
			}
			if ok {
				return true
			}
		}
	}
	return false
}

func shrinkTime(ctx *vf.Ctx) time.Duration {
	if ctx.Tier == "thorough" {
		return 60 * time.Second
	}
	return 20 * time.Second
}

func replay(ctx *vf.Ctx, data json.RawMessage) (string, string) {
	var c Case
	if err := json.Unmarshal(data, &c); err != nil {
		return "bad replay file: " + err.Error(), "harness"
	}
	batch, err := oracle.NewBatch(filepath.Join(ctx.Scratch, "oracle"))
	if err != nil {
		return "oracle: " + err.Error(), "harness"
	}
	_, nat := batch.Ensure(oracle.Single(c.Src))
	pool := yrun.NewPool(1, filepath.Join(ctx.Scratch, "workers"))
	defer pool.Close()
	out := pool.Run(&yrun.Job{Src: c.Src}, 3*time.Minute)
	v := diff.Compare(nat, &out)
	if v.Discard != "" || v.Inconclusive != "" || v.Sig == "" {
		return "", ""
	}
	if c.Key != "" {
		return fmt.Sprintf("[%s] %s", v.Sig, v.Msg), c.Key
	}
	return v.Msg, v.Sig
}

func init() {
	vf.Register(&vf.Check{
		ID:    "C05",
		Level: "exploration",
		Rule:  "case = one program drawn by the check's own generator: 3-6 struct types of unique shape, embedding depth <= 3 by value and by pointer, value- and pointer-receiver methods over a pool of 12 method names (promoted, shadowed and ambiguous ones arise), 2-4 interfaces with overlapping method sets (also embedded in structs), methods print and mutate receiver state; 8-14 independent probes per program cross a (type, method) pair with a call form: direct (addressable, non-addressable, through pointer, explicit path, nil receiver), method value, method expression, call through interface (user, host, anonymous; value or pointer held; nil), type assertion (concrete/interface, one/two results, failing ones recovered), type switch (binding, multi-type, nil, default), host calls (fmt, errors, sort, io, bufio) on generated types implementing error, Stringer, sort.Interface, io.Reader, io.Writer; type-checked with go/types, built natively; oracle = stdout bytes and ending of the native binary; non-trivial = the program holds >= 1 call resolved through an embedded field and made through an interface or a method value, or a host call that must invoke an interpreted method; distinct by source text; classes = receiver kind (value/pointer) x embedding kind (none/value/pointer) x call form (direct/method-value/method-expr/interface/assertion/type-switch/host); a cell that is never generated over a quick run (or in a shard of >= 200 cases) and that no known-finding switch removes makes the run inconclusive",
		Assumptions: []string{
			"the installed Go toolchain (go1.23, language level go1.22) is the reference",
			"programs do not print pointers, %T, %#v, %+v, nor structs through reflection; struct shapes are unique (documented reflect limitation)",
			"panic messages are not compared, only a marker printed by a deferred recover",
			"constructs listed under excluded_by_construction are switched off because of recorded known findings",
		},
		Cases:  map[string]int{"quick": 320, "thorough": 8000},
		Shards: map[string]int{"quick": 8, "thorough": 16},
		Run:    run,
		Replay: replay,
	})
}
