package c05

import (
	"fmt"
	"regexp"
	"strings"
)

// ---------------------------------------------------------------------------
// source rendering

func (m *model) sigOf(name string, alt bool) msig {
	if alt && name == "Mb" {
		return altSig
	}
	return sigs[name]
}

func (m *model) renderIface(b *strings.Builder, it *ifaceT) {
	fmt.Fprintf(b, "type %s interface {\n", it.name())
	for _, e := range it.Embeds {
		fmt.Fprintf(b, "\tI%d\n", e)
	}
	for _, n := range it.Names {
		s := sigs[n]
		b.WriteString(strings.TrimRight(fmt.Sprintf("\t%s(%s) %s", n, s.params, s.results), " ") + "\n")
	}
	b.WriteString("}\n\n")
}

func (m *model) renderStruct(b *strings.Builder, s *structT) {
	i := s.Idx
	fmt.Fprintf(b, "type T%d struct {\n", i)
	fmt.Fprintf(b, "\tn%d int\n\ts%d string\n\tx%d %s\n", i, i, i, s.Extra)
	if s.HasV {
		fmt.Fprintf(b, "\tv%d []int\n", i)
	}
	if s.HasE {
		fmt.Fprintf(b, "\te%d error\n", i)
	}
	for _, e := range s.Embeds {
		switch e.Kind {
		case embValue:
			fmt.Fprintf(b, "\tT%d\n", e.Idx)
		case embPtr:
			fmt.Fprintf(b, "\t*T%d\n", e.Idx)
		case embIface:
			fmt.Fprintf(b, "\tI%d\n", e.Idx)
		}
	}
	b.WriteString("}\n\n")
	for k := range s.Methods {
		m.renderMethod(b, s, &s.Methods[k])
	}
	// constructor
	fmt.Fprintf(b, "func mkT%d(k int) T%d {\n", i, i)
	fmt.Fprintf(b, "\treturn T%d{n%d: k, s%d: %q, x%d: %s", i, i, i, s.S, i, s.ExtraV)
	if s.HasV {
		fmt.Fprintf(b, ", v%d: []int{%s}", i, joinInts(s.V))
	}
	if s.HasE {
		switch s.EInit {
		case 1:
			fmt.Fprintf(b, ", e%d: errBase", i)
		case 2:
			fmt.Fprintf(b, ", e%d: errOther", i)
		}
	}
	for n, e := range s.Embeds {
		switch e.Kind {
		case embValue:
			fmt.Fprintf(b, ", T%d: mkT%d(k + %d)", e.Idx, e.Idx, n+1)
		case embPtr:
			fmt.Fprintf(b, ", T%d: pT%d(k + %d)", e.Idx, e.Idx, n+1)
		case embIface:
			if e.Hold >= 0 {
				f := "mkT"
				if e.HoldPtr {
					f = "pT"
				}
				fmt.Fprintf(b, ", I%d: %s%d(k + %d)", e.Idx, f, e.Hold, n+1)
			}
		}
	}
	b.WriteString("}\n}\n\n")
	fmt.Fprintf(b, "func pT%d(k int) *T%d {\n\tv := mkT%d(k)\n\treturn &v\n}\n\n", i, i, i)
	// state dump
	fmt.Fprintf(b, "func dT%d(p *T%d) string {\n\tif p == nil {\n\t\treturn \"nil\"\n\t}\n", i, i)
	fmt.Fprintf(b, "\tr := fmt.Sprintf(\"T%d{%%d %%q %%v\", p.n%d, p.s%d, p.x%d)\n", i, i, i, i)
	if s.HasV {
		fmt.Fprintf(b, "\tr += fmt.Sprintf(\" %%v\", p.v%d)\n", i)
	}
	if s.HasE {
		fmt.Fprintf(b, "\tr += fmt.Sprintf(\" e:%%v\", p.e%d != nil)\n", i)
	}
	for _, e := range s.Embeds {
		switch e.Kind {
		case embValue:
			fmt.Fprintf(b, "\tr += \" \" + dT%d(&p.T%d)\n", e.Idx, e.Idx)
		case embPtr:
			fmt.Fprintf(b, "\tr += \" \" + dT%d(p.T%d)\n", e.Idx, e.Idx)
		case embIface:
			fmt.Fprintf(b, "\tr += fmt.Sprintf(\" I%d:%%v\", p.I%d != nil)\n", e.Idx, e.Idx)
		}
	}
	b.WriteString("\treturn r + \"}\"\n}\n\n")
}

func joinInts(v []int) string {
	var p []string
	for _, x := range v {
		p = append(p, fmt.Sprint(x))
	}
	return strings.Join(p, ", ")
}

func (m *model) renderMethod(b *strings.Builder, s *structT, md *method) {
	i := s.Idx
	sg := m.sigOf(md.Name, md.Alt)
	recv := fmt.Sprintf("r T%d", i)
	label := fmt.Sprintf("T%d.%s", i, md.Name)
	if md.Ptr {
		recv = fmt.Sprintf("r *T%d", i)
		label = fmt.Sprintf("(*T%d).%s", i, md.Name)
	}
	res := sg.results
	if res != "" {
		res = " " + res
	}
	fmt.Fprintf(b, "func (%s) %s(%s)%s {\n", recv, md.Name, sg.params, res)
	n, sf, v, e := fmt.Sprintf("r.n%d", i), fmt.Sprintf("r.s%d", i), fmt.Sprintf("r.v%d", i), fmt.Sprintf("r.e%d", i)
	inner := func() {
		if md.Inner != nil {
			fmt.Fprintf(b, "\tr.%s(%s)\n", md.Inner.Name, md.Inner.Args)
		}
	}
	switch md.Name {
	case "Ma":
		fmt.Fprintf(b, "\tfmt.Println(%q, %s, %s, k)\n\t%s += k\n", label, n, sf, n)
		inner()
		fmt.Fprintf(b, "\treturn %s * 2\n", n)
	case "Mb":
		fmt.Fprintf(b, "\tfmt.Println(%q, %s, %s)\n\t%s += \"b\"\n", label, n, sf, sf)
		inner()
		if md.Alt {
			fmt.Fprintf(b, "\treturn len(%s) + 100\n", sf)
		} else {
			fmt.Fprintf(b, "\treturn %s\n", sf)
		}
	case "Mc":
		fmt.Fprintf(b, "\tfmt.Println(%q, %s, %s, s)\n\t%s = s + %s\n\t%s++\n", label, n, sf, sf, sf, n)
		inner()
	case "Md":
		fmt.Fprintf(b, "\tfmt.Println(%q, %s, %s, k, s)\n\t%s -= k\n", label, n, sf, n)
		inner()
		fmt.Fprintf(b, "\treturn %s, len(s) > k\n", n)
	case "String":
		fmt.Fprintf(b, "\t%s++\n\treturn fmt.Sprint(\"T%d<\", %s, \",\", %s, \">\")\n", n, i, n, sf)
	case "Error":
		fmt.Fprintf(b, "\t%s += 2\n\treturn fmt.Sprint(\"T%d-err<\", %s, \",\", %s, \">\")\n", n, i, n, sf)
	case "Unwrap":
		fmt.Fprintf(b, "\t%s += 3\n\treturn %s\n", n, e)
	case "Read":
		fmt.Fprintf(b, "\tif %s < 0 || %s >= len(%s) {\n\t\treturn 0, io.EOF\n\t}\n", n, n, sf)
		fmt.Fprintf(b, "\tc := copy(p, %s[%s:])\n\t%s += c\n\treturn c, nil\n", sf, n, n)
	case "Write":
		fmt.Fprintf(b, "\t%s += string(p)\n\t%s += len(p)\n\treturn len(p), nil\n", sf, n)
	case "Len":
		fmt.Fprintf(b, "\treturn len(%s)\n", v)
	case "Less":
		fmt.Fprintf(b, "\t%s++\n\treturn %s[i]/10 < %s[j]/10\n", n, v, v)
	case "Swap":
		fmt.Fprintf(b, "\t%s += 100\n\t%s[i], %s[j] = %s[j], %s[i]\n", n, v, v, v, v)
	}
	b.WriteString("}\n\n")
}

// program is a generated program: the hierarchy and its probes.
type program struct {
	M      *model
	Probes []*probe
}

// probe is one independent call-form experiment (function pN).
type probe struct {
	ID    int
	Form  string // direct, method-value, method-expr, interface, assertion, type-switch, host
	Feats []string
	// Classes are the (receiver × embedding × form) cells the probe covers.
	Classes []string
	// Nontrivial by the rule of the check.
	Nontrivial bool
	Decls      []string // extra top-level declarations
	Lines      []string // body
}

func (p *probe) tag() string { return fmt.Sprintf("p%d", p.ID) }

// render produces the source with the selected probes (nil = all).
func (pr *program) render(only map[int]bool) string {
	var body strings.Builder
	m := pr.M
	body.WriteString("var errBase = errors.New(\"base\")\n\nvar errOther = errors.New(\"other\")\n\n")
	body.WriteString("func rec(tag string) {\n\tif r := recover(); r != nil {\n\t\tfmt.Println(tag, \"panic\")\n\t}\n}\n\n")
	for _, it := range m.Ifaces {
		m.renderIface(&body, it)
	}
	for _, s := range m.Structs {
		m.renderStruct(&body, s)
	}
	var calls []string
	for _, p := range pr.Probes {
		if only != nil && !only[p.ID] {
			continue
		}
		for _, d := range p.Decls {
			body.WriteString(d)
			body.WriteString("\n")
		}
		fmt.Fprintf(&body, "func %s() {\n\tdefer rec(%q)\n\tfmt.Println(\"== %s\")\n", p.tag(), p.tag(), p.tag())
		for _, l := range p.Lines {
			body.WriteString("\t")
			body.WriteString(l)
			body.WriteString("\n")
		}
		body.WriteString("}\n\n")
		calls = append(calls, "\t"+p.tag()+"()\n")
	}
	body.WriteString("func main() {\n")
	for _, c := range calls {
		body.WriteString(c)
	}
	body.WriteString("\t_, _ = errBase, errOther\n}\n")
	text := body.String()
	var src strings.Builder
	src.WriteString("package main\n\nimport (\n")
	for _, imp := range []string{"bufio", "bytes", "errors", "fmt", "io", "sort", "strings"} {
		if regexp.MustCompile(`\b` + imp + `\.`).MatchString(text) {
			fmt.Fprintf(&src, "\t%q\n", imp)
		}
	}
	src.WriteString(")\n\n")
	src.WriteString(text)
	return src.String()
}
