// Package c05 holds the check of property C05.
package c05
