package c05

import (
	"fmt"
	"sort"
	"strings"
)

// ---------------------------------------------------------------------------
// model of a generated type hierarchy
//
// The model mirrors the Go rules for selector resolution and method sets
// (depth, ambiguity, pointer indirection) only to steer the generator towards
// legal programs and to label them; go/types has the last word on legality
// (ill-typed programs are counted and skipped) and the native binary is the
// only behavioural oracle.

// msig describes a method signature of the fixed method-name pool.
type msig struct {
	params  string // parameter list source
	results string // result list source ("" = none)
	nres    int
	// resFmt[i] renders result variable i for printing
	resFmt []string
}

// The method pool. Every method name has one signature, so that interfaces
// over the pool overlap; Mb has an alternative signature (altSig) used by a
// few types to build "same name, other signature" situations.
var sigs = map[string]msig{
	"Ma":     {"k int", "int", 1, []string{"%s"}},
	"Mb":     {"", "string", 1, []string{"%s"}},
	"Mc":     {"s string", "", 0, nil},
	"Md":     {"k int, s string", "(int, bool)", 2, []string{"%s", "%s"}},
	"String": {"", "string", 1, []string{"%s"}},
	"Error":  {"", "string", 1, []string{"%s"}},
	"Unwrap": {"", "error", 1, []string{"%s == nil"}},
	"Read":   {"p []byte", "(int, error)", 2, []string{"%s", "%s == nil"}},
	"Write":  {"p []byte", "(int, error)", 2, []string{"%s", "%s == nil"}},
	"Len":    {"", "int", 1, []string{"%s"}},
	"Less":   {"i, j int", "bool", 1, []string{"%s"}},
	"Swap":   {"i, j int", "", 0, nil},
}

var altSig = msig{"", "int", 1, []string{"%s"}} // Mb() int

var genericNames = []string{"Ma", "Mb", "Mc", "Md"}

// host method groups
var hostGroups = map[string][]string{
	"stringer": {"String"},
	"error":    {"Error"},
	"unwrap":   {"Error", "Unwrap"},
	"reader":   {"Read"},
	"writer":   {"Write"},
	"sort":     {"Len", "Less", "Swap"},
}

var hostGroupNames = []string{"stringer", "error", "unwrap", "reader", "writer", "sort"}

// host interfaces: source name → method names
var hostIfaces = map[string][]string{
	"fmt.Stringer":   {"String"},
	"error":          {"Error"},
	"io.Reader":      {"Read"},
	"io.Writer":      {"Write"},
	"sort.Interface": {"Len", "Less", "Swap"},
}

var hostIfaceNames = []string{"fmt.Stringer", "error", "io.Reader", "io.Writer", "sort.Interface"}

const (
	embValue = iota
	embPtr
	embIface
)

// embed is one embedded field of a struct.
type embed struct {
	Kind int
	Idx  int // struct or interface index
	// for embIface: what the constructor stores (-1 = nil)
	Hold    int
	HoldPtr bool
}

func (m *model) embName(e embed) string {
	if e.Kind == embIface {
		return fmt.Sprintf("I%d", e.Idx)
	}
	return fmt.Sprintf("T%d", e.Idx)
}

type innerCall struct {
	Name string
	Args string
}

type method struct {
	Name  string
	Ptr   bool
	Alt   bool
	Inner *innerCall
}

type structT struct {
	Idx     int
	Extra   string // type of the extra field x<i>
	ExtraV  string // its initial value
	S       string // initial s<i>
	V       []int  // initial v<i> (only when HasV)
	HasV    bool
	HasE    bool
	EInit   int // 0 nil, 1 errBase, 2 errOther
	Embeds  []embed
	Methods []method
}

func (s *structT) name() string { return fmt.Sprintf("T%d", s.Idx) }

func (s *structT) decl(name string) *method {
	for i := range s.Methods {
		if s.Methods[i].Name == name {
			return &s.Methods[i]
		}
	}
	return nil
}

type ifaceT struct {
	Idx    int
	Names  []string
	Embeds []int // embedded user interfaces (smaller index)
}

func (i *ifaceT) name() string { return fmt.Sprintf("I%d", i.Idx) }

type model struct {
	Structs []*structT
	Ifaces  []*ifaceT
}

// allNames is the full method set of a user interface.
func (m *model) allNames(i *ifaceT) []string {
	set := map[string]bool{}
	var rec func(*ifaceT)
	rec = func(x *ifaceT) {
		for _, n := range x.Names {
			set[n] = true
		}
		for _, e := range x.Embeds {
			rec(m.Ifaces[e])
		}
	}
	rec(i)
	var out []string
	for n := range set {
		out = append(out, n)
	}
	sort.Strings(out)
	return out
}

// res is the resolution of a selector T.name.
type res struct {
	OK     bool
	Owner  int     // declaring struct, -1 when the method comes from an embedded interface
	OwnerI int     // embedded interface index when Owner == -1
	M      *method // declaring method (Owner >= 0)
	Path   []embed
}

// resolve implements the selector rule: shallowest depth, unique there.
func (m *model) resolve(ti int, name string) res {
	type node struct {
		e    *embed // nil for the root
		ti   int
		path []embed
	}
	level := []node{{nil, ti, nil}}
	for depth := 0; depth < 8 && len(level) > 0; depth++ {
		var found []res
		var next []node
		for _, nd := range level {
			if nd.e != nil && nd.e.Kind == embIface {
				for _, n := range m.allNames(m.Ifaces[nd.e.Idx]) {
					if n == name {
						found = append(found, res{OK: true, Owner: -1, OwnerI: nd.e.Idx, Path: nd.path})
					}
				}
				continue
			}
			s := m.Structs[nd.ti]
			if d := s.decl(name); d != nil {
				found = append(found, res{OK: true, Owner: nd.ti, M: d, Path: nd.path})
			}
			for k := range s.Embeds {
				e := s.Embeds[k]
				p := append(append([]embed{}, nd.path...), e)
				next = append(next, node{&s.Embeds[k], e.Idx, p})
			}
		}
		if len(found) == 1 {
			return found[0]
		}
		if len(found) > 1 {
			return res{}
		}
		level = next
	}
	return res{}
}

// indirect: the path contains a pointer (or ends in an interface), so
// pointer-receiver methods belong to the value method set too.
func (r res) indirect() bool {
	for _, e := range r.Path {
		if e.Kind != embValue {
			return true
		}
	}
	return false
}

func (r res) ptrRecv() bool { return r.Owner >= 0 && r.M.Ptr }

// inValueSet: the method belongs to the method set of the (non-pointer) type.
func (r res) inValueSet() bool { return r.OK && (!r.ptrRecv() || r.indirect()) }

// embKind labels the path: none, value (only value embeddings), pointer (at
// least one pointer embedding), iface (resolved through an embedded interface).
func (r res) embKind() string {
	if len(r.Path) == 0 {
		return "none"
	}
	k := "value"
	for _, e := range r.Path {
		switch e.Kind {
		case embPtr:
			k = "pointer"
		case embIface:
			return "iface"
		}
	}
	return k
}

func (r res) recvKind() string {
	if r.Owner < 0 {
		return "iface"
	}
	if r.M.Ptr {
		return "pointer"
	}
	return "value"
}

// pathExpr renders base.T1.T2 for the owner of the resolution.
func (m *model) pathExpr(base string, r res) string {
	var b strings.Builder
	b.WriteString(base)
	for _, e := range r.Path {
		b.WriteByte('.')
		b.WriteString(m.embName(e))
	}
	return b.String()
}

// alt reports whether the resolved method has the alternative signature.
func (r res) alt() bool { return r.Owner >= 0 && r.M.Alt }

// implements: does T<ti> (ptr: *T<ti>) have all names with the pool signature?
func (m *model) implements(ti int, ptr bool, names []string) bool {
	for _, n := range names {
		r := m.resolve(ti, n)
		if !r.OK || r.alt() {
			return false
		}
		if !ptr && !r.inValueSet() {
			return false
		}
	}
	return true
}

// names with the pool signature that T (or *T) has in its method set.
func (m *model) methodSet(ti int, ptr bool) []string {
	var out []string
	for _, n := range allMethodNames {
		r := m.resolve(ti, n)
		if r.OK && (ptr || r.inValueSet()) {
			out = append(out, n)
		}
	}
	return out
}

var allMethodNames = []string{"Ma", "Mb", "Mc", "Md", "String", "Error", "Unwrap", "Read", "Write", "Len", "Less", "Swap"}

// depthBelow is the number of embedding levels under a struct.
func (m *model) depthBelow(ti int) int {
	d := 0
	for _, e := range m.Structs[ti].Embeds {
		x := 1
		if e.Kind != embIface {
			x = 1 + m.depthBelow(e.Idx)
		}
		if x > d {
			d = x
		}
	}
	return d
}

// dyn is a dynamic type: T<idx>, *T<idx> or nil (Idx < 0).
type dyn struct {
	Idx int
	Ptr bool
}

func (d dyn) String() string {
	if d.Idx < 0 {
		return "nil"
	}
	if d.Ptr {
		return fmt.Sprintf("*T%d", d.Idx)
	}
	return fmt.Sprintf("T%d", d.Idx)
}

// dfsDiffers reports whether a depth-first search in field order (first
// declaration found wins, whatever its depth) finds another method than the
// Go rule (shallowest depth). Used to steer around the known finding
// "promotion-depth-first".
func (m *model) dfsDiffers(ti int, name string) bool {
	r := m.resolve(ti, name)
	if !r.OK {
		return false
	}
	seen := map[int]bool{}
	var dfs func(ti int, path []embed) (int, []embed, bool)
	dfs = func(ti int, path []embed) (int, []embed, bool) {
		if seen[ti] {
			return 0, nil, false
		}
		seen[ti] = true
		s := m.Structs[ti]
		if s.decl(name) != nil {
			return ti, path, true
		}
		for _, e := range s.Embeds {
			if e.Kind == embIface {
				continue
			}
			p := append(append([]embed{}, path...), e)
			if o, pp, ok := dfs(e.Idx, p); ok {
				return o, pp, true
			}
		}
		return 0, nil, false
	}
	o, p, ok := dfs(ti, nil)
	if !ok {
		return false // only reachable through an embedded interface
	}
	if r.Owner != o || len(p) != len(r.Path) {
		return true
	}
	for i := range p {
		if p[i] != r.Path[i] {
			return true
		}
	}
	return false
}

// ambiguous: the name is declared somewhere below T<ti> but the selector is
// not legal (several declarations at the shallowest depth).
func (m *model) ambiguous(ti int, name string) bool {
	if m.resolve(ti, name).OK {
		return false
	}
	seen := map[int]bool{}
	var any func(int) bool
	any = func(i int) bool {
		if seen[i] {
			return false
		}
		seen[i] = true
		s := m.Structs[i]
		if s.decl(name) != nil {
			return true
		}
		for _, e := range s.Embeds {
			if e.Kind == embIface {
				if contains(m.allNames(m.Ifaces[e.Idx]), name) {
					return true
				}
				continue
			}
			if any(e.Idx) {
				return true
			}
		}
		return false
	}
	return any(ti)
}

// mixedAlt: both signatures of Mb are declared somewhere in the embedding
// tree of T<ti>.
func (m *model) mixedAlt(ti int) bool {
	seen := map[int]bool{}
	alt, prim := false, false
	var walk func(int)
	walk = func(i int) {
		if seen[i] {
			return
		}
		seen[i] = true
		s := m.Structs[i]
		if d := s.decl("Mb"); d != nil {
			if d.Alt {
				alt = true
			} else {
				prim = true
			}
		}
		for _, e := range s.Embeds {
			if e.Kind != embIface {
				walk(e.Idx)
			}
		}
	}
	walk(ti)
	return alt && prim
}
