package progen

import (
	"fmt"
	"sort"
	"strings"

	"pgregory.net/rapid"
)

// Config selects what the generator may produce.
type Config struct {
	// Off lists construct families that are switched off.
	Off map[string]bool
	// Stmts is the approximate number of statements of main; Funcs the
	// number of helper functions.
	Stmts, Funcs int
	// MaxDepth bounds statement nesting.
	MaxDepth int
	// OneStmtPerLine forces every statement onto its own line and tags lines
	// (C19); NoGoto etc. are expressed through Off.
	// FaultPct is the percentage of programs that end in a deliberately
	// placed panic or run-time fault.
	FaultPct int
}

// Program is a generated program.
type Program struct {
	Src  string
	Used map[string]int // construct family → occurrences
	// Faulty: a deliberate panic/fault was placed.
	Faulty bool
	Parts  Parts
	// ShadowedGlobals are the package-level variables which main shadows with
	// a variable of its own (sorted).
	ShadowedGlobals []string
}

// Var is a variable in scope.
type Var struct {
	Name string
	T    *Type
	RO   bool // must not be assigned (loop counters, ranged containers …)
	pin  int  // >0: must not be re-assigned as a whole
	// Opaque: places() does not descend into the variable (slices that may
	// be empty, e.g. collected map keys).
	Opaque bool
	// LoopVar marks iteration variables of for/range statements.
	LoopVar bool
}

type fnInfo struct {
	Name     string
	Params   []*Type
	Results  []*Type
	Cost     int
	Mutating bool
	Depth    bool  // first parameter is the recursion depth
	Recv     *Type // method receiver (value or pointer type) or nil
	RecvBase *Type // struct type
}

type loopCtx struct {
	label string
	used  *bool
}

// Gen is the generator state.
type Gen struct {
	t      *rapid.T
	cfg    *Config
	U      *Universe
	scopes [][]*Var
	funcs  []*fnInfo
	uid    int
	used   map[string]int
	mult   int
	cost   int
	budget int
	loops  []loopCtx
	inFunc *fnInfo // function being generated (nil in main)
	// results of the function being generated
	results   []*Type
	selfName  string
	depthVar  string
	inClosure int
	globals   []*Var
	// shadowedGlobals: package-level variables which main redeclares as its own.
	shadowedGlobals map[string]bool
	mainStmts       []string
	needIdx         bool
	needIdent       bool
	needSort        bool
	lbl             int
	faultAt         int
	stmtCount       int
	faulty          bool
	blockID         int
	newNeeded       map[string]int
	methods         []*fnInfo
	pmethods        []*fnInfo
	// clause: the block being generated is directly a switch clause body
	unkeyed      int
	nextIsClause bool
	clause       []bool
	// helper declarations of the idiom templates
	idiomFuncs     map[string]string
	idiomOrder     []string
	idiomTypes     map[string]string
	idiomTypeOrder []string
}

func (g *Gen) on(f string) bool { return !g.cfg.Off[f] }

func (g *Gen) use(f string) { g.used[f]++ }

func (g *Gen) n(lo, hi int, label string) int {
	if hi <= lo {
		return lo
	}
	return rapid.IntRange(lo, hi).Draw(g.t, label)
}

func (g *Gen) coin(pct int, label string) bool {
	return rapid.IntRange(0, 99).Draw(g.t, label) < pct
}

// pick draws an index according to weights (zero weights are never drawn).
func (g *Gen) pick(label string, w ...int) int {
	tot := 0
	for _, x := range w {
		tot += x
	}
	if tot == 0 {
		return 0
	}
	r := rapid.IntRange(0, tot-1).Draw(g.t, label)
	for i, x := range w {
		if r < x {
			return i
		}
		r -= x
	}
	return len(w) - 1
}

func (g *Gen) name(prefix string) string {
	g.uid++
	return fmt.Sprintf("%s%d", prefix, g.uid)
}

func (g *Gen) push() { g.scopes = append(g.scopes, nil) }
func (g *Gen) pop()  { g.scopes = g.scopes[:len(g.scopes)-1] }

func (g *Gen) declare(v *Var) {
	g.scopes[len(g.scopes)-1] = append(g.scopes[len(g.scopes)-1], v)
}

// visible returns the variables in scope, innermost first, shadowed names
// removed.
func (g *Gen) visible() []*Var {
	seen := map[string]bool{}
	var out []*Var
	for i := len(g.scopes) - 1; i >= 0; i-- {
		sc := g.scopes[i]
		for j := len(sc) - 1; j >= 0; j-- {
			if !seen[sc[j].Name] {
				seen[sc[j].Name] = true
				out = append(out, sc[j])
			}
		}
	}
	if g.inFunc == nil || true {
		for _, v := range g.globals {
			if !seen[v.Name] {
				seen[v.Name] = true
				out = append(out, v)
			}
		}
	}
	return out
}

func (g *Gen) varsOf(t *Type, writable bool) []*Var {
	var out []*Var
	for _, v := range g.visible() {
		if v.T == t && (!writable || (!v.RO && v.pin == 0 && g.writableHere(v))) {
			out = append(out, v)
		}
	}
	return out
}

// writableHere: globals are only written by main's own statements (not by
// helper functions or closures), see DESIGN §1 order-of-evaluation rule.
func (g *Gen) writableHere(v *Var) bool {
	for _, gv := range g.globals {
		if gv == v {
			return g.inFunc == nil && g.inClosure == 0
		}
	}
	return true
}

// ---------------------------------------------------------------------------
// type drawing

func (g *Gen) basicType(label string) *Type {
	w := []int{6, 2, 2, 2, 2, 2, 3, 2, 2, 2, 0, 4, 3}
	if g.on("floats") {
		w[10] = 3
	}
	i := g.pick(label, w...)
	switch {
	case i < 10:
		return g.U.Ints[i]
	case i == 10:
		return g.U.Float
	case i == 11:
		return g.U.String
	default:
		return g.U.Bool
	}
}

func (g *Gen) intType(label string) *Type {
	return g.U.Ints[g.pick(label, 6, 2, 2, 2, 2, 2, 3, 2, 2, 2)]
}

// anyType draws a type of nesting depth <= d.
func (g *Gen) anyType(d int, label string) *Type {
	w := []int{10, 0, 0, 0, 0, 0}
	if d > 0 {
		if g.on("structs") && len(g.U.Structs) > 0 {
			w[1] = 4
		}
		if g.on("arrays") {
			w[2] = 3
		}
		if g.on("slices") {
			w[3] = 3
		}
		if g.on("maps") {
			w[4] = 2
		}
		if g.on("pointers") {
			w[5] = 2
		}
	}
	switch g.pick(label, w...) {
	case 1:
		return g.U.Structs[g.n(0, len(g.U.Structs)-1, label+"s")]
	case 2:
		return g.U.ArrayOf(g.n(1, 4, label+"n"), g.anyType(d-1, label+"e"))
	case 3:
		return g.U.SliceOf(g.anyType(d-1, label+"e"))
	case 4:
		k := g.keyType(label + "k")
		return g.U.MapOf(k, g.anyType(d-1, label+"v"))
	case 5:
		if g.on("structs") && len(g.U.Structs) > 0 && g.coin(60, label+"ps") {
			return g.U.PtrTo(g.U.Structs[g.n(0, len(g.U.Structs)-1, label+"s")])
		}
		return g.U.PtrTo(g.basicType(label + "pb"))
	}
	return g.basicType(label + "b")
}

func (g *Gen) keyType(label string) *Type {
	switch g.pick(label, 5, 3, 1) {
	case 0:
		return g.intType(label + "i")
	case 1:
		return g.U.String
	}
	return g.U.Bool
}

func (g *Gen) genStructs() {
	if !g.on("structs") {
		return
	}
	n := g.n(1, 3, "nstructs")
	for i := 0; i < n; i++ {
		st := &Type{Kind: KStruct, Name: fmt.Sprintf("S%d", i)}
		nf := g.n(1, 4, "nfields")
		for j := 0; j < nf; j++ {
			ft := g.anyType(1, "ftype")
			// unique shapes: field names carry the struct index
			st.Fields = append(st.Fields, Field{Name: fmt.Sprintf("f%d%c", i, 'a'+j), Type: ft})
		}
		g.U.all[st.Name] = st
		g.U.Structs = append(g.U.Structs, st)
	}
}

// ---------------------------------------------------------------------------
// literals

var strPool = []string{"", "a", "hello", "Go", "x y", "é", "日本", "a\\tb", "zz9", "ß∂"}

func (g *Gen) intLit(t *Type, label string) string {
	var max uint64 = 1<<uint(t.Bits-1) - 1
	if !t.Signed {
		max = 1<<uint(t.Bits) - 1
		if t.Bits == 64 {
			max = ^uint64(0)
		}
	}
	switch g.pick(label, 10, 2, 2) {
	case 0:
		v := g.n(0, 9, label+"v")
		if t.Signed && g.coin(30, label+"neg") {
			return fmt.Sprintf("-%d", v)
		}
		return fmt.Sprintf("%d", v)
	case 1: // boundary
		switch g.n(0, 2, label+"b") {
		case 0:
			return fmt.Sprintf("%d", max)
		case 1:
			if t.Signed {
				return fmt.Sprintf("-%d", max+1)
			}
			return "0"
		default:
			return fmt.Sprintf("%d", max-1)
		}
	default:
		v := uint64(g.n(10, 1000, label+"m"))
		if v > max {
			v = max
		}
		if g.coin(20, label+"hex") {
			return fmt.Sprintf("0x%x", v)
		}
		return fmt.Sprintf("%d", v)
	}
}

func (g *Gen) floatLit(label string) string {
	pool := []string{"0.0", "1.5", "-2.25", "3.0", "0.1", "100.0", "1e3", "-0.5", "2.5e-3", "7.0"}
	return pool[g.n(0, len(pool)-1, label)]
}

func (g *Gen) strLit(label string) string {
	pool := strPool
	s := pool[g.n(0, len(pool)-1, label)]
	if g.on("invalid-utf8") && g.coin(5, label+"bad") {
		return `"a\xffb"`
	}
	return `"` + s + `"`
}

// lit returns a literal (or composite literal) of type t. const reports a
// compile-time constant.
func (g *Gen) lit(t *Type, d int) (string, bool) {
	switch t.Kind {
	case KInt:
		return g.intLit(t, "ilit"), true
	case KFloat:
		return g.floatLit("flit"), true
	case KString:
		return g.strLit("slit"), true
	case KBool:
		if g.coin(50, "blit") {
			return "true", true
		}
		return "false", true
	case KStruct:
		var parts []string
		keyed := g.coin(50, "keyed")
		if g.unkeyed > 0 {
			keyed = false
		}
		for _, f := range t.Fields {
			e := g.expr(f.Type, d-1)
			if keyed {
				parts = append(parts, f.Name+": "+e)
			} else {
				parts = append(parts, stripParens(e))
			}
		}
		g.use("lit-struct")
		return t.Name + "{" + strings.Join(parts, ", ") + "}", false
	case KArray:
		var parts []string
		for i := 0; i < t.N; i++ {
			parts = append(parts, g.elemLit(t.Elem, d-1))
		}
		g.use("lit-array")
		return t.Name + "{" + strings.Join(parts, ", ") + "}", false
	case KSlice:
		n := g.n(1, 4, "slen")
		var parts []string
		for i := 0; i < n; i++ {
			parts = append(parts, g.elemLit(t.Elem, d-1))
		}
		g.use("lit-slice")
		return t.Name + "{" + strings.Join(parts, ", ") + "}", false
	case KMap:
		n := g.n(0, 3, "mlen")
		var parts []string
		seen := map[string]bool{}
		for i := 0; i < n; i++ {
			k, _ := g.lit(t.Key, 0)
			if seen[k] {
				continue
			}
			// equal keys written differently (0x1 vs 1) are compile errors:
			// normalise by only using distinct decimal/str forms
			if t.Key.Kind == KInt {
				k = fmt.Sprintf("%d", i+1)
			}
			if seen[k] {
				continue
			}
			seen[k] = true
			parts = append(parts, k+": "+g.elemLit(t.Elem, d-1))
		}
		g.use("lit-map")
		return t.Name + "{" + strings.Join(parts, ", ") + "}", false
	case KPtr:
		// pointers are never nil: address of a composite literal, of a fresh
		// variable through new+set helper, or of an addressable variable
		if vs := g.varsOf(t.Elem, false); len(vs) > 0 && g.coin(50, "addrvar") && g.inClosure == 0 {
			v := vs[g.n(0, len(vs)-1, "addrv")]
			if g.addressable(v) {
				g.use("addr-of-var")
				return "&" + v.Name, false
			}
		}
		if t.Elem.Kind == KStruct {
			e, _ := g.lit(t.Elem, d-1)
			g.use("addr-of-lit")
			return "&" + e, false
		}
		g.use("new-basic")
		if g.newNeeded == nil {
			g.newNeeded = map[string]int{}
		}
		g.newNeeded[t.Elem.Name]++
		return fmt.Sprintf("new%s(%s)", mangle(t.Elem), g.expr(t.Elem, d-1)), false
	case KFunc:
		return g.funcLit(t, d), false
	}
	panic("lit: " + t.Name)
}

// elemLit is an element of a composite literal: inner composite literals may
// elide their type when the feature is on.
func (g *Gen) elemLit(t *Type, d int) string {
	if g.on("paren-star-elem") {
		return g.expr(t, d)
	}
	return stripParens(g.expr(t, d))
}

// stripParens removes one pair of parentheses enclosing the whole expression.
// Finding paren-star-elem (fixed): an unkeyed composite literal element of the
// form (… *p …) was rejected by the interpreter; the switch of that name keeps
// the parentheses.
func stripParens(e string) string {
	if len(e) < 2 || e[0] != '(' || e[len(e)-1] != ')' {
		return e
	}
	depth := 0
	for i := 0; i < len(e); i++ {
		switch e[i] {
		case '(':
			depth++
		case ')':
			depth--
			if depth == 0 && i != len(e)-1 {
				return e
			}
		case '"', '\'':
			return e // keep it simple: do not look into literals
		}
	}
	return e[1 : len(e)-1]
}

func (g *Gen) addressable(v *Var) bool {
	// globals are not captured by address from functions (aliasing a global
	// would let a helper write it)
	for _, gv := range g.globals {
		if gv == v {
			return false
		}
	}
	return !v.RO
}

func mangle(t *Type) string {
	r := strings.NewReplacer("[", "A", "]", "_", "*", "P", " ", "", "(", "", ")", "", ",", "")
	return r.Replace(t.Name)
}

// ---------------------------------------------------------------------------
// places: readable (and possibly assignable) expressions reached from
// variables in scope

type place struct {
	code   string
	t      *Type
	assign bool // may be assigned
	root   *Var
}

// places enumerates access paths of depth <= 2 from visible variables.
func (g *Gen) places() []place {
	var out []place
	var walk func(p place, d int)
	walk = func(p place, d int) {
		out = append(out, p)
		if d <= 0 {
			return
		}
		switch p.t.Kind {
		case KStruct:
			for _, f := range p.t.Fields {
				walk(place{p.code + "." + f.Name, f.Type, p.assign, p.root}, d-1)
			}
		case KArray:
			walk(place{fmt.Sprintf("%s[%s]", p.code, g.constIdx(p.t.N)), p.t.Elem, p.assign, p.root}, d-1)
		case KSlice:
			// element of a slice is assignable whatever the slice variable is
			walk(place{fmt.Sprintf("%s[0]", p.code), p.t.Elem, !p.root.RO || true, p.root}, d-1)
		case KPtr:
			if p.t.Elem.Kind == KStruct {
				for _, f := range p.t.Elem.Fields {
					walk(place{p.code + "." + f.Name, f.Type, true, p.root}, d-1)
				}
			}
			// rendered without parentheses: "((*p) op x)" as an element of a
			// composite literal is a recorded known finding (paren-star-elem)
			walk(place{"*" + p.code, p.t.Elem, true, p.root}, 0)
		}
	}
	for _, v := range g.visible() {
		asg := !v.RO && g.writableHere(v)
		if v.Opaque {
			out = append(out, place{v.Name, v.T, false, v})
			continue
		}
		walk(place{v.Name, v.T, asg && v.pin == 0, v}, 2)
	}
	return out
}

func (g *Gen) constIdx(n int) string {
	// deterministic small index so that places() stays a pure enumeration
	return fmt.Sprintf("%d", (g.uid+n)%n)
}

// placeOf returns an access path of type t, or "".
func (g *Gen) placeOf(t *Type, assign bool, label string) string {
	var cands []place
	for _, p := range g.places() {
		if p.t == t && (!assign || p.assign) {
			// writes through pointers/slices reach shared memory: inside
			// helper functions that makes the function mutating, which is
			// tracked by the caller of placeOf through p.root
			cands = append(cands, p)
		}
	}
	if len(cands) == 0 {
		return ""
	}
	p := cands[g.n(0, len(cands)-1, label)]
	code := p.code
	// randomise the index of array/slice steps
	return g.reindex(code, p)
}

// reindex replaces constant array indexes by computed ones now and then.
func (g *Gen) reindex(code string, p place) string {
	return code
}

// ---------------------------------------------------------------------------
// expressions

// expr returns an expression of type t.
func (g *Gen) expr(t *Type, d int) string {
	e, _ := g.exprC(t, d)
	return e
}

// nonConst returns an expression of type t that is not a constant.
func (g *Gen) nonConst(t *Type, d int) string {
	e, c := g.exprC(t, d)
	if !c {
		return e
	}
	// prefer a variable
	if vs := g.varsOf(t, false); len(vs) > 0 {
		return vs[g.n(0, len(vs)-1, "ncv")].Name
	}
	return g.globalOf(t)
}

// globalOf returns a read-only package-level variable of a basic type.
func (g *Gen) globalOf(t *Type) string {
	name := "g" + strings.ToUpper(t.Name[:1]) + t.Name[1:]
	for _, v := range g.globals {
		if v.Name == name {
			return name
		}
	}
	g.globals = append(g.globals, &Var{Name: name, T: t, RO: true})
	return name
}

func (g *Gen) exprC(t *Type, d int) (string, bool) {
	if d <= 0 {
		return g.leaf(t)
	}
	switch t.Kind {
	case KInt:
		return g.intExpr(t, d)
	case KFloat:
		return g.floatExpr(t, d)
	case KString:
		return g.strExpr(t, d)
	case KBool:
		return g.boolExpr(d)
	default:
		return g.compExpr(t, d)
	}
}

func (g *Gen) leaf(t *Type) (string, bool) {
	vs := g.varsOf(t, false)
	w := []int{4, 0, 0}
	if len(vs) > 0 {
		w[1] = 8
	}
	p := ""
	if t.Kind != KFunc {
		p = g.placeOf(t, false, "leafplace")
		if p != "" {
			w[2] = 4
		}
	}
	switch g.pick("leaf", w...) {
	case 1:
		return vs[g.n(0, len(vs)-1, "leafv")].Name, false
	case 2:
		g.use("place-read")
		return p, false
	}
	return g.lit(t, 0)
}

// callOf returns a call to a pure helper function returning exactly t.
func (g *Gen) callOf(t *Type, d int) string {
	var cands []*fnInfo
	for _, f := range g.funcs {
		if len(f.Results) == 1 && f.Results[0] == t && !f.Mutating && f.Recv == nil {
			if g.cost+g.mult*f.Cost <= g.budget {
				cands = append(cands, f)
			}
		}
	}
	// methods with a value receiver available in scope
	type mc struct {
		f    *fnInfo
		recv string
	}
	var mcs []mc
	for _, m := range g.methods {
		if m.Results[0] == t && g.cost+g.mult*m.Cost <= g.budget {
			if vs := g.varsOf(m.Recv, false); len(vs) > 0 {
				mcs = append(mcs, mc{m, vs[0].Name})
			}
		}
	}
	if len(cands)+len(mcs) == 0 {
		return ""
	}
	k := g.n(0, len(cands)+len(mcs)-1, "callf")
	if k >= len(cands) {
		m := mcs[k-len(cands)]
		g.cost += g.mult * m.f.Cost
		g.use("method-call")
		return fmt.Sprintf("%s.%s(%s)", m.recv, m.f.Name, g.expr(m.f.Params[0], d-1))
	}
	return g.callExpr(cands[k], d)
}

func (g *Gen) callExpr(f *fnInfo, d int) string {
	g.cost += g.mult * f.Cost
	var args []string
	for i, p := range f.Params {
		if i == 0 && f.Depth {
			args = append(args, fmt.Sprint(g.n(0, 3, "depth")))
			continue
		}
		args = append(args, g.expr(p, d-1))
	}
	g.use("call")
	return f.Name + "(" + strings.Join(args, ", ") + ")"
}

func (g *Gen) intExpr(t *Type, d int) (string, bool) {
	w := []int{3, 6, 8, 3, 2, 3, 2, 2, 2}
	// 0 lit 1 var/place 2 binary 3 conv 4 len 5 call 6 unary 7 closure-call 8 shift
	if t != g.U.Int {
		w[4] = 0
	}
	if !g.on("closures") || g.inClosure > 1 {
		w[7] = 0
	}
	if !g.on("shifts") {
		w[8] = 0
	}
	switch g.pick("iexpr", w...) {
	case 0:
		return g.intLit(t, "il"), true
	case 1:
		return g.leaf(t)
	case 2:
		ops := []string{"+", "-", "*", "&", "|", "^", "&^", "/", "%"}
		op := ops[g.pick("iop", 6, 6, 4, 2, 2, 2, 1, 3, 3)]
		l, lc := g.exprC(t, d-1)
		if op == "/" || op == "%" {
			r := g.nonConst(t, d-1)
			if lc {
				l = g.nonConst(t, 0)
			}
			g.use("int-div")
			return fmt.Sprintf("(%s %s (%s | 1))", l, op, r), false
		}
		r, rc := g.exprC(t, d-1)
		if lc && rc {
			l = g.nonConst(t, 0)
		}
		g.use("int-arith")
		return fmt.Sprintf("(%s %s %s)", l, op, r), false
	case 3:
		// conversion from another numeric type (never from a constant)
		var src *Type
		if g.on("floats") && g.coin(0, "fromfloat") {
			src = g.U.Float
		} else {
			src = g.intType("convsrc")
		}
		g.use("int-conv")
		return fmt.Sprintf("%s(%s)", t.Name, g.nonConst(src, d-1)), false
	case 4:
		if e, c := g.lenExpr(); e != "" {
			return e, c
		}
		return g.leaf(t)
	case 5:
		if e := g.callOf(t, d); e != "" {
			return e, false
		}
		return g.leaf(t)
	case 6:
		op := []string{"-", "^", "+"}[g.n(0, 2, "uop")]
		g.use("int-unary")
		return fmt.Sprintf("(%s%s)", op, g.nonConst(t, d-1)), false
	case 7:
		return g.iife(t, d), false
	default:
		op := []string{"<<", ">>"}[g.n(0, 1, "shop")]
		l := g.nonConst(t, d-1)
		var r string
		if g.coin(50, "shconst") {
			r = fmt.Sprint(g.n(0, t.Bits+1, "shc"))
		} else {
			ut := g.U.Ints[5+g.n(0, 4, "shty")]
			cd := d - 1
			if !g.on("shift-count-deep-const") {
				// known finding: an untyped constant nested three levels deep in
				// a shift count takes the type of the shifted operand
				cd = 0
			}
			r = fmt.Sprintf("(%s & %d)", g.nonConst(ut, cd), []int{7, 15, 31, 63, 127}[g.n(0, 4, "shmask")])
		}
		g.use("shift")
		return fmt.Sprintf("(%s %s %s)", l, op, r), false
	}
}

// lenExpr returns a len/cap expression; len of an array is a constant.
func (g *Gen) lenExpr() (string, bool) {
	var cands []string
	var consts []bool
	for _, p := range g.places() {
		switch p.t.Kind {
		case KSlice, KArray, KMap, KString:
			cands = append(cands, "len("+p.code+")")
			consts = append(consts, p.t.Kind == KArray)
			if p.t.Kind == KSlice {
				cands = append(cands, "cap("+p.code+")")
				consts = append(consts, false)
			}
		}
	}
	if len(cands) == 0 {
		return "", false
	}
	g.use("len-cap")
	i := g.n(0, len(cands)-1, "lenp")
	return cands[i], consts[i]
}

func (g *Gen) floatExpr(t *Type, d int) (string, bool) {
	switch g.pick("fexpr", 3, 6, 8, 3, 2) {
	case 0:
		return g.floatLit("fl"), true
	case 1:
		return g.leaf(t)
	case 2:
		op := []string{"+", "-", "*", "/"}[g.n(0, 3, "fop")]
		l, lc := g.exprC(t, d-1)
		r, rc := g.exprC(t, d-1)
		if lc && rc {
			l = g.nonConst(t, 0)
		}
		if op == "/" && rc {
			r = g.nonConst(t, 0)
		}
		g.use("float-arith")
		return fmt.Sprintf("(%s %s %s)", l, op, r), false
	case 3:
		g.use("float-conv")
		return fmt.Sprintf("%s(%s)", t.Name, g.nonConst(g.intType("fconv"), d-1)), false
	default:
		if e := g.callOf(t, d); e != "" {
			return e, false
		}
		return g.leaf(t)
	}
}

func (g *Gen) strExpr(t *Type, d int) (string, bool) {
	switch g.pick("sexpr", 3, 6, 5, 2, 2, 2) {
	case 0:
		return g.strLit("sl"), true
	case 1:
		return g.leaf(t)
	case 2:
		l, lc := g.exprC(t, d-1)
		r, rc := g.exprC(t, d-1)
		if lc && rc {
			l = g.nonConst(t, 0)
		}
		g.use("str-concat")
		return fmt.Sprintf("(%s + %s)", l, r), false
	case 3:
		if e := g.callOf(t, d); e != "" {
			return e, false
		}
		return g.leaf(t)
	case 4:
		g.use("str-conv-rune")
		return fmt.Sprintf("string(rune(65 + (%s & 15)))", g.nonConst(g.U.all["uint8"], d-1)), false
	default:
		g.use("fmt-sprint")
		b := g.basicType("sprt")
		return fmt.Sprintf("fmt.Sprint(%s)", g.nonConst(b, d-1)), false
	}
}

func (g *Gen) boolExpr(d int) (string, bool) {
	t := g.U.Bool
	switch g.pick("bexpr", 1, 3, 8, 4, 2, 2) {
	case 0:
		return g.lit(t, 0)
	case 1:
		return g.leaf(t)
	case 2:
		ct := g.basicType("cmpt")
		if ct.Kind == KBool {
			ct = g.U.Int
		}
		ops := []string{"==", "!=", "<", "<=", ">", ">="}
		op := ops[g.n(0, 5, "cmpop")]
		l := g.nonConst(ct, d-1)
		r := g.expr(ct, d-1)
		g.use("compare")
		return fmt.Sprintf("(%s %s %s)", l, op, r), false
	case 3:
		op := []string{"&&", "||"}[g.n(0, 1, "logop")]
		l := g.nonConstBool(d - 1)
		r := g.nonConstBool(d - 1)
		g.use("logic")
		return fmt.Sprintf("(%s %s %s)", l, op, r), false
	case 4:
		g.use("not")
		return "(!" + g.nonConstBool(d-1) + ")", false
	default:
		// equality of comparable composite values
		var cands []*Type
		for _, v := range g.visible() {
			if v.T.Comparable() && (v.T.Kind == KStruct || v.T.Kind == KArray) {
				cands = append(cands, v.T)
			}
		}
		if len(cands) == 0 {
			return g.leaf(t)
		}
		ct := cands[g.n(0, len(cands)-1, "cmpc")]
		g.use("compare-composite")
		if !g.on("keyed-lit-compare-in-logic") {
			// known finding: (x == T{f: v}) as operand of && / || panics
			g.unkeyed++
			defer func() { g.unkeyed-- }()
		}
		return fmt.Sprintf("(%s == %s)", g.nonConst(ct, 0), g.expr(ct, d-1)), false
	}
}

func (g *Gen) nonConstBool(d int) string {
	e, c := g.boolExpr(d)
	if !c {
		return e
	}
	return g.nonConst(g.U.Bool, 0)
}

func (g *Gen) compExpr(t *Type, d int) (string, bool) {
	vs := g.varsOf(t, false)
	w := []int{4, 0, 0, 0, 0}
	if len(vs) > 0 {
		w[1] = 6
	}
	p := ""
	if t.Kind != KFunc {
		p = g.placeOf(t, false, "compplace")
	}
	if p != "" {
		w[2] = 3
	}
	w[3] = 2
	if t.Kind == KSlice {
		w[4] = 2
	}
	switch g.pick("cexpr", w...) {
	case 1:
		return vs[g.n(0, len(vs)-1, "cv")].Name, false
	case 2:
		g.use("place-read")
		return p, false
	case 3:
		if e := g.callOf(t, d); e != "" {
			return e, false
		}
	case 4:
		if len(vs) > 0 {
			g.use("append-expr")
			return fmt.Sprintf("append(%s, %s)", vs[g.n(0, len(vs)-1, "apv")].Name, g.expr(t.Elem, d-1)), false
		}
	}
	return g.lit(t, d)
}

// iife is an immediately invoked function literal returning t.
func (g *Gen) iife(t *Type, d int) string {
	pt := g.basicType("iifep")
	g.use("closure-iife")
	g.inClosure++
	g.push()
	p := g.name("a")
	g.declare(&Var{Name: p, T: pt})
	body := g.expr(t, d-1)
	g.pop()
	g.inClosure--
	return fmt.Sprintf("func(%s %s) %s { return %s }(%s)", p, pt.Name, t.Name, body, g.expr(pt, d-1))
}

// funcLit returns a function literal of the given func type (pure: only its
// parameters and visible variables are read).
func (g *Gen) funcLit(t *Type, d int) string {
	g.inClosure++
	g.push()
	var ps []string
	for _, p := range t.Params {
		n := g.name("a")
		g.declare(&Var{Name: n, T: p})
		ps = append(ps, n+" "+p.Name)
	}
	var rs, rt []string
	for _, r := range t.Results {
		rs = append(rs, g.expr(r, d-1))
		rt = append(rt, r.Name)
	}
	g.pop()
	g.inClosure--
	res := ""
	if len(rt) == 1 {
		res = " " + rt[0]
	} else if len(rt) > 1 {
		res = " (" + strings.Join(rt, ", ") + ")"
	}
	body := ""
	if len(rs) > 0 {
		body = "return " + strings.Join(rs, ", ")
	}
	g.use("func-lit")
	return fmt.Sprintf("func(%s)%s { %s }", strings.Join(ps, ", "), res, body)
}

// sortedFeatures lists used construct families.
func sortedFeatures(m map[string]int) []string {
	var out []string
	for k := range m {
		out = append(out, k)
	}
	sort.Strings(out)
	return out
}
