// Package progen is a type-directed random generator of valid, deterministic,
// terminating Go programs. Every random choice is a rapid draw, so programs
// shrink and replay. Constructs are grouped in families that can be switched
// off (profiles per property, exclusion of recorded known findings).
package progen

import (
	"fmt"
	"strings"
)

// Kind classifies generator types.
type Kind int

// Kinds.
const (
	KInt Kind = iota // any integer kind (see Type.Name)
	KFloat
	KString
	KBool
	KStruct
	KArray
	KSlice
	KMap
	KPtr
	KFunc
)

// Type is a Go type known to the generator.
type Type struct {
	Kind    Kind
	Name    string // Go syntax
	Elem    *Type  // array, slice, map value, pointer
	Key     *Type  // map key
	N       int    // array length
	Fields  []Field
	Bits    int  // integers
	Signed  bool // integers
	Params  []*Type
	Results []*Type
}

// Field is a struct field.
type Field struct {
	Name string
	Type *Type
}

func (t *Type) String() string { return t.Name }

// Printable reports whether %v of a value of this type is deterministic and
// faithful under the interpreter (no pointers, no funcs).
func (t *Type) Printable() bool {
	switch t.Kind {
	case KInt, KFloat, KString, KBool:
		return true
	case KArray, KSlice:
		return t.Elem.Printable()
	case KMap:
		return t.Key.Printable() && t.Elem.Printable()
	case KStruct:
		for _, f := range t.Fields {
			if !f.Type.Printable() {
				return false
			}
		}
		return true
	}
	return false
}

// Comparable reports whether == is defined.
func (t *Type) Comparable() bool {
	switch t.Kind {
	case KInt, KFloat, KString, KBool, KPtr:
		return true
	case KArray:
		return t.Elem.Comparable()
	case KStruct:
		for _, f := range t.Fields {
			if !f.Type.Comparable() {
				return false
			}
		}
		return true
	}
	return false
}

// IsNumeric reports integer or float.
func (t *Type) IsNumeric() bool { return t.Kind == KInt || t.Kind == KFloat }

var intNames = []string{"int", "int8", "int16", "int32", "int64", "uint", "uint8", "uint16", "uint32", "uint64"}

func mkInt(name string) *Type {
	t := &Type{Kind: KInt, Name: name}
	t.Signed = !strings.HasPrefix(name, "u")
	switch strings.TrimLeft(name, "uint") {
	case "8":
		t.Bits = 8
	case "16":
		t.Bits = 16
	case "32":
		t.Bits = 32
	default:
		t.Bits = 64
	}
	return t
}

// Universe holds the types of one program.
type Universe struct {
	Ints    []*Type
	Int     *Type
	Float   *Type
	Float32 *Type
	String  *Type
	Bool    *Type
	Structs []*Type
	all     map[string]*Type
}

func newUniverse() *Universe {
	u := &Universe{all: map[string]*Type{}}
	for _, n := range intNames {
		t := mkInt(n)
		u.Ints = append(u.Ints, t)
		u.all[n] = t
	}
	u.Int = u.all["int"]
	u.Float = &Type{Kind: KFloat, Name: "float64", Bits: 64}
	u.Float32 = &Type{Kind: KFloat, Name: "float32", Bits: 32}
	u.String = &Type{Kind: KString, Name: "string"}
	u.Bool = &Type{Kind: KBool, Name: "bool"}
	u.all["float64"], u.all["float32"], u.all["string"], u.all["bool"] = u.Float, u.Float32, u.String, u.Bool
	return u
}

func (u *Universe) intern(t *Type) *Type {
	if x, ok := u.all[t.Name]; ok {
		return x
	}
	u.all[t.Name] = t
	return t
}

// ArrayOf returns [n]elem.
func (u *Universe) ArrayOf(n int, e *Type) *Type {
	return u.intern(&Type{Kind: KArray, Name: fmt.Sprintf("[%d]%s", n, e.Name), Elem: e, N: n})
}

// SliceOf returns []elem.
func (u *Universe) SliceOf(e *Type) *Type {
	return u.intern(&Type{Kind: KSlice, Name: "[]" + e.Name, Elem: e})
}

// MapOf returns map[k]v.
func (u *Universe) MapOf(k, v *Type) *Type {
	return u.intern(&Type{Kind: KMap, Name: fmt.Sprintf("map[%s]%s", k.Name, v.Name), Key: k, Elem: v})
}

// PtrTo returns *elem.
func (u *Universe) PtrTo(e *Type) *Type {
	return u.intern(&Type{Kind: KPtr, Name: "*" + e.Name, Elem: e})
}

// FuncOf returns func(params) results.
func (u *Universe) FuncOf(params, results []*Type) *Type {
	var ps, rs []string
	for _, p := range params {
		ps = append(ps, p.Name)
	}
	for _, r := range results {
		rs = append(rs, r.Name)
	}
	name := "func(" + strings.Join(ps, ", ") + ")"
	switch len(rs) {
	case 0:
	case 1:
		name += " " + rs[0]
	default:
		name += " (" + strings.Join(rs, ", ") + ")"
	}
	return u.intern(&Type{Kind: KFunc, Name: name, Params: params, Results: results})
}
