package progen

import (
	"fmt"
	"os"
	"testing"

	"pgregory.net/rapid"
)

func typeCheck(src string) string { return TypeCheck(src) }

func TestGenerateTypeChecks(t *testing.T) {
	n, bad := 0, 0
	errs := map[string]int{}
	rapid.Check(t, func(t *rapid.T) {
		p := Generate(t, DefaultConfig())
		n++
		if n <= 2 && os.Getenv("SHOW") != "" {
			fmt.Println(p.Src)
		}
		if e := typeCheck(p.Src); e != "" {
			bad++
			if errs[e] == 0 && len(errs) < 15 {
				fmt.Println("ERR:", e)
				if os.Getenv("SHOWBAD") != "" {
					fmt.Println(p.Src)
				}
			}
			errs[e]++
		}
	})
	fmt.Printf("generated %d, ill-typed %d\n", n, bad)
	if bad > 0 {
		t.Fatalf("%d of %d programs do not type-check", bad, n)
	}
}
