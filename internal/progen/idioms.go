package progen

import "fmt"

// Idioms are small self-contained statement groups around evaluation-order
// and aliasing rules of the language which the type-directed generator does
// not reach by itself (it keeps loop variables read-only, names no results,
// and draws operands without looking for aliases): a loop variable modified
// by the body, named results returned in another order, a logical operation
// whose second operand changes the first, operations stored into interface
// results, tuple assignments whose left side depends on their right side,
// append of elements of the appended slice, a struct literal built from the
// fields of the variable it is assigned to, swaps through pointers. Each
// template is drawn with its own parameters, is placed like any other
// statement (in loops, closures, functions, switch clauses) and prints what it
// computed. Every template is a switch ("idiom-…") so that a recorded finding
// can turn it off alone.

var idiomNames = []string{
	"idiom-loopvar-modified", "idiom-named-results-order", "idiom-logical-side-effect",
	"idiom-op-to-interface", "idiom-tuple-map-key", "idiom-redeclare-swap",
	"idiom-append-alias", "idiom-struct-self-assign", "idiom-pointer-swap",
	"idiom-named-result-fresh", "idiom-chan-recv", "idiom-assert-fail-zero",
	"idiom-range-int-bound", "idiom-method-value-receiver", "idiom-named-results-in-place",
	"idiom-switch-empty", "idiom-reference-values-saved",
}

func (g *Gen) idiomHelper(name, src string) {
	if g.idiomFuncs == nil {
		g.idiomFuncs = map[string]string{}
	}
	if _, ok := g.idiomFuncs[name]; !ok {
		g.idiomFuncs[name] = src
		g.idiomOrder = append(g.idiomOrder, name)
	}
}

func (g *Gen) idiomStmt(o *out, d int) {
	var avail []int
	for i, n := range idiomNames {
		if g.on(n) {
			avail = append(avail, i)
		}
	}
	if len(avail) == 0 {
		g.printStmt(o, d)
		return
	}
	k := avail[g.n(0, len(avail)-1, "idiom")]
	g.use(idiomNames[k])
	a, b, c := g.n(1, 9, "ia"), g.n(1, 9, "ib"), g.n(1, 9, "ic")
	switch k {
	case 0: // loop variable modified by the body
		i := g.name("i")
		hi := g.n(3, 6, "lvhi")
		at := g.n(0, hi-1, "lvat")
		switch form := g.n(0, 4, "lvform"); {
		case form == 2:
			// modified only by a tuple assignment from a call
			g.idiomHelper("idNext", "func idNext(i int) (int, int) { return i * i, i + 2 }\n")
			sq := g.name("v")
			o.line("for %s := 0; %s < %d; %s++ {", i, i, hi+4, i)
			o.line("\tvar %s int", sq)
			o.line("\t%s, %s = idNext(%s)", sq, i, i)
			o.line("\tfmt.Println(\"it\", %s, %s)", sq, i)
			o.line("}")
			return
		case form == 3:
			// modified only through a pointer passed to a function
			g.idiomHelper("idBump", "func idBump(p *int) { *p += 3 }\n")
			o.line("for %s := 0; %s < %d; %s++ {", i, i, hi+6, i)
			o.line("\tfmt.Println(\"ip\", %s)", i)
			o.line("\tidBump(&%s)", i)
			o.line("}")
			return
		case form == 4:
			// modified only through a local pointer
			q := g.name("v")
			o.line("for %s := 0; %s < %d; %s++ {", i, i, hi+6, i)
			o.line("\t%s := &%s", q, i)
			o.line("\t*%s += %d", q, g.n(1, 3, "lvptradd"))
			o.line("\tfmt.Println(\"iq\", %s)", i)
			o.line("}")
			return
		}
		if g.coin(50, "lvcont") {
			o.line("for %s := 0; %s < %d; %s++ {", i, i, hi, i)
			o.line("\tif %s == %d {", i, at)
			o.line("\t\t%s += %d", i, g.n(1, 2, "lvadd"))
			o.line("\t}")
			o.line("\tfmt.Println(\"il\", %s)", i)
			o.line("}")
		} else {
			o.line("for %s := 0; %s < %d; %s++ {", i, i, hi+2, i)
			o.line("\tif %s%%2 == %d {", i, at%2)
			o.line("\t\t%s++", i)
			o.line("\t\tcontinue")
			o.line("\t}")
			o.line("\tfmt.Println(\"ic\", %s)", i)
			o.line("}")
		}
	case 1: // named results returned in another order
		g.idiomHelper("idSwap", "func idSwap(a, b int) (x, y int) {\n\tx, y = a, b\n\treturn y, x\n}\n")
		g.idiomHelper("idRot", "func idRot(a, b, c string) (x, y, z string) {\n\tx, y, z = a, b, c\n\treturn z, x, y\n}\n")
		g.idiomHelper("idMix", "func idMix(a, b int) (x int, s []int) {\n\tx, s = a, []int{b}\n\treturn s[0], []int{x, x}\n}\n")
		form := g.n(0, 2, "nrform")
		if form == 0 && !g.on("multi-value-define") {
			form = 2
		}
		switch form {
		case 0:
			x, y := g.name("v"), g.name("v")
			o.line("%s, %s := idSwap(%d, %d)", x, y, a, b)
			o.line("fmt.Println(\"in\", %s, %s)", x, y)
		case 1:
			o.line("fmt.Println(idRot(\"%d\", \"%d\", \"%d\"))", a, b, c)
		default:
			o.line("fmt.Println(idMix(%d, %d))", a, b)
		}
	case 2: // the second operand of a logical operation changes the first
		ok, clr, set, r := g.name("v"), g.name("cl"), g.name("cl"), g.name("v")
		o.line("{")
		o.line("\t%s := true", ok)
		o.line("\t%s := func() bool { %s = false; return true }", clr, ok)
		o.line("\t%s := func() bool { %s = true; return false }", set, ok)
		o.line("\t%s := %s && %s()", r, ok, clr)
		o.line("\tfmt.Println(\"ia\", %s, %s)", r, ok)
		o.line("\t%s = %s || %s()", r, ok, set)
		o.line("\tfmt.Println(\"io\", %s, %s)", r, ok)
		o.line("\tif %s && %s() || !%s {", ok, clr, ok)
		o.line("\t\tfmt.Println(\"ib\", %s)", ok)
		o.line("\t}")
		o.line("\tfmt.Println(\"ie\", %s || %s(), %s && %s(), %s)", ok, set, ok, clr, ok)
		o.line("}")
	case 3: // operations stored into interface results and variables
		g.idiomHelper("idLt", "func idLt(x, k int) interface{} { return x < k }\n")
		g.idiomHelper("idEq", "func idEq(s string) (int, interface{}) { return len(s), s == \"a\" }\n")
		g.idiomHelper("idNeg", "func idNeg(x int) interface{} { return -x }\n")
		g.idiomHelper("idNot", "func idNot(b bool) interface{} { return !b }\n")
		g.idiomHelper("idCpl", "func idCpl(x uint8) interface{} { return ^x }\n")
		form := g.n(0, 2, "ifform")
		if form == 1 && !g.on("multi-value-define") {
			form = 0
		}
		switch form {
		case 0:
			o.line("fmt.Println(\"if\", idLt(%d, %d), idNeg(%d), idNot(%v), idCpl(%d))", a, b, c, a > b, a)
		case 1:
			x, y := g.name("v"), g.name("v")
			o.line("%s, %s := idEq(\"%s\")", x, y, []string{"a", "b", ""}[a%3])
			o.line("fmt.Println(\"ig\", %s, %s)", x, y)
		default:
			e, x := g.name("v"), g.name("v")
			o.line("{")
			o.line("\tvar %s interface{}", e)
			o.line("\t%s := %d", x, a)
			o.line("\t%s = -%s", e, x)
			o.line("\tfmt.Println(\"ih\", %s)", e)
			o.line("\t%s = %s < %d", e, x, b)
			o.line("\tfmt.Println(\"ih\", %s)", e)
			o.line("\t%s = !(%s == %d)", e, x, c)
			o.line("\tfmt.Println(\"ih\", %s)", e)
			o.line("}")
		}
	case 4: // tuple assignment whose map key is assigned by the same statement
		m, k := g.name("v"), g.name("v")
		o.line("{")
		o.line("\t%s := map[string]int{}", m)
		o.line("\t%s := \"a\"", k)
		o.line("\t%s, %s[%s] = \"b\", %d", k, m, k, a)
		o.line("\tfmt.Println(\"im\", %s, len(%s), %s[\"a\"], %s[\"b\"])", k, m, m, m)
		o.line("\t%s[%s], %s = %d, \"c\"", m, k, k, b)
		o.line("\tfmt.Println(\"im\", %s, len(%s), %s[\"b\"], %s[\"c\"])", k, m, m, m)
		o.line("}")
	case 5: // short variable declaration redeclaring a variable it reads
		x, y, z := g.name("v"), g.name("v"), g.name("v")
		o.line("{")
		o.line("\t%s, %s := %d, %d", x, y, a, b)
		o.line("\t%s, %s := %s, %s", x, z, y, x)
		o.line("\tfmt.Println(\"id\", %s, %s, %s)", x, y, z)
		o.line("\t%s, %s, %s = %s, %s, %s+%s", x, y, z, y, x, x, y)
		o.line("\tfmt.Println(\"id\", %s, %s, %s)", x, y, z)
		o.line("}")
	case 6: // append of elements of the appended slice
		s := g.name("v")
		o.line("{")
		if g.coin(50, "apstruct") {
			o.line("\t%s := [][2]int{{%d, 1}, {%d, 2}, {%d, 3}}", s, a, b, c)
			o.line("\t%s = append(%s[:0], %s[2], %s[1], %s[0])", s, s, s, s, s)
		} else {
			o.line("\t%s := []int{%d, %d, %d, 4}", s, a, b, c)
			o.line("\t%s = append(%s[:1], %s[3], %s[1], %s[2])", s, s, s, s, s)
		}
		o.line("\tfmt.Println(\"ip\", %s)", s)
		o.line("}")
	case 7: // struct literal built from the fields of its destination
		g.idiomType("idVec", "type idVec struct {\n\tx, y int\n\tn string\n}\n")
		v := g.name("v")
		o.line("{")
		o.line("\t%s := idVec{%d, %d, \"%d\"}", v, a, b, c)
		o.line("\t%s = idVec{%s.y, %s.x, %s.n}", v, v, v, v)
		o.line("\tfmt.Println(\"iv\", %s)", v)
		o.line("\t%s = idVec{x: -%s.y, y: %s.x + %s.y, n: %s.n + \"!\"}", v, v, v, v, v)
		o.line("\tfmt.Println(\"iv\", %s)", v)
		o.line("}")
	case 9: // a named result starts at zero, whatever the call is assigned to
		g.idiomHelper("idAcc", "func idAcc(k int) (r int) {\n\tr += k\n\treturn\n}\n")
		g.idiomHelper("idNz", "func idNz() (r int, s []int) {\n\tr++\n\ts = append(s, r)\n\treturn\n}\n")
		x, xs := g.name("v"), g.name("v")
		o.line("{")
		o.line("\t%s := %d", x, a)
		o.line("\t%s = idAcc(%d)", x, b)
		o.line("\t%s = idAcc(%d)", x, c)
		o.line("\tfmt.Println(\"ir\", %s)", x)
		o.line("\t%s := []int{%d}", xs, b)
		o.line("\t%s, %s = idNz()", x, xs)
		o.line("\t%s, %s = idNz()", x, xs)
		o.line("\tfmt.Println(\"ir\", %s, %s)", x, xs)
		o.line("}")
	case 10: // values received from a (buffered) channel are ordinary variables
		ch, x, y, p, f := g.name("v"), g.name("v"), g.name("v"), g.name("v"), g.name("cl")
		o.line("{")
		o.line("\t%s := make(chan int, 4)", ch)
		o.line("\t%s <- %d", ch, a)
		o.line("\t%s <- %d", ch, b)
		o.line("\t%s <- %d", ch, c)
		o.line("\t%s <- %d", ch, a+b)
		o.line("\t%s := <-%s", x, ch)
		o.line("\t%s = %s + 1", x, x)
		o.line("\t%s++", x)
		o.line("\t%s := 0", y)
		o.line("\t%s := &%s", p, y)
		o.line("\t*%s = <-%s", p, ch)
		o.line("\t%s := func() int { return <-%s }", f, ch)
		o.line("\tfmt.Println(\"ih\", %s, %s, %s(), len(%s))", x, y, f, ch)
		o.line("\t%s = <-%s", x, ch)
		o.line("\t%s -= 2", x)
		o.line("\tfmt.Println(\"ih\", %s, len(%s))", x, ch)
		o.line("}")
	case 11: // a failed comma-ok assertion sets its result to the zero value
		n, k, ok, st := g.name("v"), g.name("v"), g.name("v"), g.name("v")
		o.line("{")
		o.line("\tvar %s interface{} = %d", n, a)
		o.line("\tvar %s int", k)
		o.line("\tvar %s bool", ok)
		o.line("\tvar %s string", st)
		o.line("\t%s, %s = %s.(int)", k, ok, n)
		o.line("\tfmt.Println(\"it\", %s, %s)", k, ok)
		o.line("\t%s, %s = interface{}(\"x\").(int)", k, ok)
		o.line("\tfmt.Println(\"it\", %s, %s)", k, ok)
		o.line("\t%s = \"s%d\"", st, b)
		o.line("\t%s, %s = %s.(string)", st, ok, n)
		o.line("\tfmt.Println(\"it\", len(%s), %s)", st, ok)
		o.line("}")
	case 12: // the bound of a range over an integer is evaluated once
		n, cn, i, n2 := g.name("v"), g.name("v"), g.name("i"), g.name("v")
		o.line("{")
		o.line("\t%s, %s := %d, 0", n, cn, a+2)
		o.line("\tfor %s := range %s {", i, n)
		o.line("\t\t%s--", n)
		o.line("\t\t%s += %s", cn, i)
		o.line("\t}")
		o.line("\tfmt.Println(\"ir\", %s, %s)", cn, n)
		o.line("\tfor %s := range uint8(%d) {", i, b%4)
		o.line("\t\tfmt.Println(\"iu\", %s+1)", i)
		o.line("\t}")
		o.line("\tvar %s int64 = %d", n2, c%3)
		o.line("\tfor %s := range %s {", i, n2)
		o.line("\t\t%s += 2", n2)
		o.line("\t\tfmt.Println(\"ij\", %s, %s)", i, n2)
		o.line("\t}")
		o.line("}")
	case 13: // the receiver of a method value is evaluated with the method value
		g.idiomType("idCell", "type idCell struct{ n int }\n")
		g.idiomHelper("idCellGet", "func (c *idCell) get() int { return c.n }\n")
		g.idiomHelper("idCellAdd", "func (c *idCell) add(d int) { c.n += d }\n")
		g.idiomHelper("idCellVal", "func (c idCell) val() int { return c.n * 2 }\n")
		cs, fs, p, f, v, i := g.name("v"), g.name("v"), g.name("v"), g.name("cl"), g.name("cl"), g.name("i")
		o.line("{")
		o.line("\t%s := []idCell{{%d}, {%d}, {%d}}", cs, a, b, c)
		o.line("\tvar %s []func() int", fs)
		o.line("\tfor %s := range %s {", i, cs)
		o.line("\t\t%s = append(%s, %s[%s].get)", fs, fs, cs, i)
		o.line("\t\t%s[%s].add(%s)", cs, i, i)
		o.line("\t}")
		o.line("\t%s := &%s[0]", p, cs)
		o.line("\t%s, %s := %s.get, %s.val", f, v, p, p)
		o.line("\t%s = &%s[2]", p, cs)
		o.line("\t%s.add(10)", p)
		o.line("\tfmt.Println(\"iy\", %s[0](), %s[1](), %s[2](), %s(), %s(), %s.get())", fs, fs, fs, f, v, p)
		o.line("}")
	case 14: // values of a return statement computed from the named results
		g.idiomHelper("idStep", "func idStep(a int) (r, s int) {\n\tr = a\n\treturn r + 1, r * 2\n}\n")
		g.idiomHelper("idFold", "func idFold(a, b int) (x, y, z int) {\n\tx, y, z = a, b, a+b\n\treturn y * 10, -z, x + y + z\n}\n")
		g.idiomHelper("idDbl", "func idDbl(x int) int { return x * 2 }\n")
		g.idiomHelper("idCross", "func idCross(a, b int) (x, y int) {\n\tx, y = a, b\n\treturn idDbl(y), idDbl(x)\n}\n")
		g.idiomHelper("idText", "func idText(a int) (n int, t string) {\n\tn, t = a, \"zz\"\n\treturn len(t) + n, fmt.Sprint(n)\n}\n")
		g.idiomHelper("idLate", "func idLate(a int) (x, y int) {\n\tdefer func() { x += 100 }()\n\tx, y = a, a+1\n\treturn y + 1, x + 1\n}\n")
		switch g.n(0, 4, "npform") {
		case 0:
			o.line("fmt.Println(idStep(%d))", a)
		case 1:
			o.line("fmt.Println(idFold(%d, %d))", a, b)
		case 2:
			o.line("fmt.Println(idCross(%d, %d))", a, b)
		case 3:
			o.line("fmt.Println(idText(%d))", a)
		default:
			o.line("fmt.Println(idLate(%d))", a)
		}
	case 15: // a switch without clauses still runs its init statement and its tag
		g.idiomHelper("idSay", "func idSay(x int) int {\n\tfmt.Println(\"is\", x)\n\treturn x\n}\n")
		x := g.name("v")
		o.line("switch %s := idSay(%d); %s + idSay(%d) {", x, a, x, b)
		o.line("}")
		o.line("switch idSay(%d); {", c)
		o.line("}")
		o.line("switch %s := idSay(%d); %s * 2 {", x, a, x)
		o.line("case %d:", 2*a)
		o.line("\tfmt.Println(\"is2\", %s)", x)
		o.line("default:")
		o.line("\tfmt.Println(\"isd\", %s)", x)
		o.line("}")
	case 16: // slices, maps, pointers and functions saved by defer, return and append
		g.idiomHelper("idSwapS", "func idSwapS(a, b []int) (x, y []int) {\n\tx, y = a, b\n\treturn y, x\n}\n")
		g.idiomHelper("idRotP", "func idRotP(a, b, c *int) (x, y, z *int) {\n\tx, y, z = a, b, c\n\treturn y, z, x\n}\n")
		g.idiomHelper("idSwapM", "func idSwapM(a, b map[string]int) (x, y map[string]int) {\n\tx, y = a, b\n\treturn y, x\n}\n")
		sv, mv, x, y, z, pv, fv := g.name("v"), g.name("v"), g.name("v"), g.name("v"), g.name("v"), g.name("v"), g.name("cl")
		switch g.n(0, 2, "rvform") {
		case 0:
			o.line("func() {")
			o.line("\t%s, %s := []int{%d, %d}, map[string]int{\"k\": %d}", sv, mv, a, b, c)
			o.line("\t%s, %s := %d, %d", x, y, a, b)
			o.line("\t%s := &%s", pv, x)
			o.line("\t%s := func() { fmt.Println(\"rf first\") }", fv)
			o.line("\tdefer func(s []int, m map[string]int, p *int) { fmt.Println(\"rd\", s, m, *p) }(%s, %s, %s)", sv, mv, pv)
			o.line("\tdefer fmt.Println(\"rg\", %s, len(%s), %s == &%s)", sv, mv, pv, x)
			o.line("\tdefer %s()", fv)
			o.line("\t%s = append(%s, %d)", sv, sv, c)
			o.line("\t%s = map[string]int{}", mv)
			o.line("\t%s = &%s", pv, y)
			o.line("\t%s = func() { fmt.Println(\"rf second\") }", fv)
			o.line("\tfmt.Println(\"rb\", %s, len(%s), *%s)", sv, mv, pv)
			o.line("}()")
		case 1:
			o.line("{")
			o.line("\t%s, %s := idSwapS([]int{%d}, []int{%d, %d})", sv, mv, a, b, c)
			o.line("\t%s, %s, %s := %d, %d, %d", x, y, z, a, b, c)
			o.line("\tp1, p2, p3 := idRotP(&%s, &%s, &%s)", x, y, z)
			o.line("\tm1, m2 := idSwapM(map[string]int{\"a\": %d}, map[string]int{\"b\": %d})", a, b)
			o.line("\tfmt.Println(\"rs\", %s, %s, *p1, *p2, *p3, m1, m2)", sv, mv)
			o.line("}")
		default:
			o.line("{")
			o.line("\t%s, %s, %s := %d, %d, %d", x, y, z, a, b, c)
			o.line("\t%s := []*int{&%s, &%s, &%s}", pv, x, y, z)
			o.line("\t%s = append(%s[:1], %s[2], %s[1])", pv, pv, pv, pv)
			o.line("\t%s := [][]int{{%d}, {%d, 0}, {%d, 0, 0}}", sv, a, b, c)
			o.line("\t%s = append(%s[:0], %s[2], %s[0], %s[1])", sv, sv, sv, sv, sv)
			o.line("\t%s := []map[string]int{{\"a\": %d}, {\"b\": %d}, {\"c\": %d}}", mv, a, b, c)
			o.line("\t%s = append(%s[:1], %s[2], %s[1])", mv, mv, mv, mv)
			o.line("\tfmt.Println(\"ra\", *%s[0], *%s[1], *%s[2], %s, %s)", pv, pv, pv, sv, mv)
			o.line("}")
		}
	default: // swaps through pointers and parentheses
		p, q, x, y := g.name("v"), g.name("v"), g.name("v"), g.name("v")
		o.line("{")
		o.line("\t%s, %s := %d, %d", x, y, a, b)
		o.line("\t%s, %s := &%s, &%s", p, q, x, y)
		o.line("\t*%s, *%s = *%s, *%s", p, q, q, p)
		o.line("\tfmt.Println(\"iw\", %s, %s)", x, y)
		o.line("\t%s, %s = (%s), (%s)", x, y, y, x)
		o.line("\tfmt.Println(\"iw\", %s, %s)", x, y)
		o.line("\t%s, *%s = *%s+%d, %s", x, q, q, c, x)
		o.line("\tfmt.Println(\"iw\", %s, %s)", x, y)
		o.line("}")
	}
}

func (g *Gen) idiomType(name, src string) {
	if g.idiomTypes == nil {
		g.idiomTypes = map[string]string{}
	}
	if _, ok := g.idiomTypes[name]; !ok {
		g.idiomTypes[name] = src
		g.idiomTypeOrder = append(g.idiomTypeOrder, name)
	}
}

func (g *Gen) idiomDecls() (types, funcs []string) {
	for _, n := range g.idiomTypeOrder {
		types = append(types, g.idiomTypes[n])
	}
	for _, n := range g.idiomOrder {
		funcs = append(funcs, g.idiomFuncs[n])
	}
	return
}

var _ = fmt.Sprint
