package progen

import (
	"go/ast"
	"go/importer"
	"go/parser"
	"go/token"
	"go/types"
	"sync"
)

var (
	impMu sync.Mutex
	imp   types.Importer
)

// TypeCheck type-checks a single-file program with go/types (source
// importer) and returns the first error text, or "".
func TypeCheck(src string) string {
	fset := token.NewFileSet()
	f, err := parser.ParseFile(fset, "main.go", src, 0)
	if err != nil {
		return "parse: " + err.Error()
	}
	impMu.Lock()
	defer impMu.Unlock()
	if imp == nil {
		imp = importer.ForCompiler(token.NewFileSet(), "source", nil)
	}
	conf := types.Config{Importer: imp}
	if _, err = conf.Check("main", fset, []*ast.File{f}, nil); err != nil {
		return err.Error()
	}
	return ""
}
