package progen

import (
	"fmt"
	"strings"
)

// out is an indented statement writer.
type out struct {
	sb  strings.Builder
	ind int
}

func (o *out) line(format string, a ...any) {
	o.sb.WriteString(strings.Repeat("\t", o.ind))
	fmt.Fprintf(&o.sb, format, a...)
	o.sb.WriteByte('\n')
}

func (o *out) raw(s string) { o.sb.WriteString(s) }

// block generates n statements in a new scope and returns the text. The
// block ends by using every variable it declared (printing the printable
// ones).
func (g *Gen) block(ind, n, d int) string {
	o := &out{ind: ind}
	g.push()
	g.clause = append(g.clause, g.nextIsClause)
	g.nextIsClause = false
	g.blockID++
	id := g.blockID
	for i := 0; i < n; i++ {
		g.stmt(o, d)
	}
	g.endBlock(o, id)
	g.clause = g.clause[:len(g.clause)-1]
	g.pop()
	return o.sb.String()
}

// endBlock uses the variables declared in the innermost scope.
func (g *Gen) endBlock(o *out, id int) {
	sc := g.scopes[len(g.scopes)-1]
	var pr []string
	seen := map[string]bool{}
	for i := len(sc) - 1; i >= 0; i-- {
		v := sc[i]
		if seen[v.Name] {
			continue
		}
		seen[v.Name] = true
		if v.T.Printable() {
			pr = append(pr, v.Name)
		} else {
			o.line("_ = %s", v.Name)
		}
	}
	if len(pr) > 0 {
		// reverse to declaration order
		for i, j := 0, len(pr)-1; i < j; i, j = i+1, j-1 {
			pr[i], pr[j] = pr[j], pr[i]
		}
		o.line("fmt.Println(\"b%d\", %s)", id, strings.Join(pr, ", "))
	}
}

func (g *Gen) tick() {
	g.cost += g.mult
	g.stmtCount++
}

// stmt emits one statement.
func (g *Gen) stmt(o *out, d int) {
	g.tick()
	if g.faultAt > 0 && g.stmtCount == g.faultAt && g.inFunc == nil && g.inClosure == 0 {
		g.fault(o)
		return
	}
	w := make([]int, 20)
	w[0] = 10 // declare
	w[1] = 12 // assign
	w[2] = 5  // op-assign
	w[3] = 3  // inc/dec
	w[4] = 6  // print
	if d > 0 {
		if g.on("if") {
			w[5] = 7
		}
		if g.on("for") && g.cost < g.budget/2 {
			w[6] = 7
		}
		if g.on("range") && g.cost < g.budget/2 {
			w[7] = 6
		}
		if g.on("switch") {
			w[8] = 5
		}
		if g.on("closures") && g.inClosure == 0 {
			w[9] = 4
		}
		if g.on("goto") && g.inClosure == 0 {
			w[13] = 2
		}
		if g.on("block") {
			w[14] = 2
		}
	}
	if g.on("multi-assign") {
		w[10] = 4
	}
	if g.on("calls") {
		w[11] = 5
	}
	if len(g.loops) > 0 || len(g.results) >= 0 {
		w[12] = 3 // break/continue/return inside if
	}
	if g.on("defer") && g.inFunc != nil && g.mult == 1 && d > 0 {
		w[15] = 2
	}
	if g.on("maps") {
		w[16] = 3
	}
	if g.on("slices") {
		w[17] = 3
	}
	if g.on("idioms") {
		w[18] = 4
	}
	switch g.pick("stmt", w...) {
	case 0:
		g.declStmt(o, d)
	case 1:
		g.assignStmt(o, d)
	case 2:
		g.opAssignStmt(o, d)
	case 3:
		g.incDecStmt(o)
	case 4:
		g.printStmt(o, d)
	case 5:
		g.ifStmt(o, d)
	case 6:
		g.forStmt(o, d)
	case 7:
		g.rangeStmt(o, d)
	case 8:
		g.switchStmt(o, d)
	case 9:
		g.closureStmt(o, d)
	case 10:
		g.multiAssignStmt(o, d)
	case 11:
		g.callStmt(o, d)
	case 12:
		g.jumpStmt(o, d)
	case 13:
		g.gotoStmt(o, d)
	case 14:
		o.line("{")
		o.raw(g.block(o.ind+1, g.n(1, 3, "bn"), d-1))
		o.line("}")
		g.use("bare-block")
	case 15:
		g.deferStmt(o, d)
	case 16:
		g.mapStmt(o, d)
	case 17:
		g.sliceStmt(o, d)
	case 18:
		g.idiomStmt(o, d)
	}
}

func (g *Gen) exprDepth() int { return g.n(0, 3, "ed") }

func (g *Gen) declStmt(o *out, d int) {
	// a variable of main with the name and the type of a package-level variable:
	// main works on its own variable from there on, the functions declared
	// before keep reading the package-level one
	if g.on("shadow-global") && g.inFunc == nil && g.inClosure == 0 && len(g.scopes) == 1 && len(g.globals) > 0 && g.coin(8, "shglobal") {
		gv := g.globals[g.n(0, len(g.globals)-1, "shg")]
		if !g.shadowedGlobals[gv.Name] {
			if g.shadowedGlobals == nil {
				g.shadowedGlobals = map[string]bool{}
			}
			g.shadowedGlobals[gv.Name] = true
			e := g.expr(gv.T, g.exprDepth())
			o.line("%s := %s", gv.Name, g.typedIfConst(gv.T, e))
			g.declare(&Var{Name: gv.Name, T: gv.T})
			g.use("shadow-global")
			return
		}
	}
	t := g.anyType(2, "dt")
	name := g.name("v")
	// shadowing: reuse a visible name of an outer scope
	if g.on("shadow") && len(g.scopes) > 1 && g.coin(10, "shadow") {
		vis := g.visible()
		var outer []*Var
		inner := map[string]bool{}
		for _, v := range g.scopes[len(g.scopes)-1] {
			inner[v.Name] = true
		}
		for _, v := range vis {
			if v.LoopVar && !g.on("shadow-loopvar") {
				continue
			}
			if !inner[v.Name] && !strings.HasPrefix(v.Name, "g") && !v.RO && v.pin == 0 {
				outer = append(outer, v)
			}
		}
		if len(outer) > 0 {
			name = outer[g.n(0, len(outer)-1, "shv")].Name
			g.use("shadow")
		}
	}
	e := g.expr(t, g.exprDepth())
	w := []int{6, 3, 2}
	if !g.on("var-decl-stmt") {
		w = []int{1, 0, 0}
	}
	switch g.pick("declform", w...) {
	case 0:
		o.line("%s := %s", name, g.typedIfConst(t, e))
		g.use("define")
	case 1:
		o.line("var %s %s = %s", name, t.Name, e)
		g.use("var-init")
	default:
		if refFree(t) {
			o.line("var %s %s", name, t.Name)
			g.use("var-zero")
		} else {
			o.line("var %s = %s", name, g.typedIfConst(t, e))
			g.use("var-infer")
		}
	}
	g.declare(&Var{Name: name, T: t})
}

// typedIfConst wraps constants (and expressions whose static type could
// differ from t by untyped defaulting) in a conversion so that := gives the
// variable the intended type.
func (g *Gen) typedIfConst(t *Type, e string) string {
	switch t.Kind {
	case KInt, KFloat, KString, KBool:
		return fmt.Sprintf("%s(%s)", t.Name, e)
	}
	return e
}

// refFree: the zero value contains no nil slice, map or pointer.
func refFree(t *Type) bool {
	switch t.Kind {
	case KInt, KFloat, KString, KBool:
		return true
	case KArray:
		return refFree(t.Elem)
	case KStruct:
		for _, f := range t.Fields {
			if !refFree(f.Type) {
				return false
			}
		}
		return true
	}
	return false
}

// lhs picks an assignable place; it returns its code and type.
func (g *Gen) lhs(label string) (string, *Type) {
	var cands []place
	for _, p := range g.places() {
		if p.assign && p.t.Kind != KFunc {
			cands = append(cands, p)
		}
	}
	if len(cands) == 0 {
		return "", nil
	}
	p := cands[g.n(0, len(cands)-1, label)]
	code := p.code
	// computed index instead of the constant one, sometimes
	if i := strings.LastIndex(code, "["); i >= 0 && strings.HasSuffix(code, "]") && g.coin(40, label+"ci") {
		base := code[:i]
		if bt := g.typeOfPlace(base); bt != nil {
			switch bt.Kind {
			case KArray:
				g.needIdx = true
				code = fmt.Sprintf("%s[idx(%s, %d)]", base, g.nonConst(g.U.Int, 1), bt.N)
				g.use("index-computed")
			case KSlice:
				g.needIdx = true
				code = fmt.Sprintf("%s[idx(%s, len(%s))]", base, g.nonConst(g.U.Int, 1), base)
				g.use("index-computed")
			}
		}
	}
	switch {
	case strings.HasPrefix(code, "*"):
		g.use("lhs-deref")
	case strings.Contains(code, "["):
		g.use("lhs-index")
	case strings.Contains(code, "."):
		g.use("lhs-field")
	default:
		g.use("lhs-var")
	}
	return code, p.t
}

func (g *Gen) typeOfPlace(code string) *Type {
	for _, p := range g.places() {
		if p.code == code {
			return p.t
		}
	}
	return nil
}

func (g *Gen) assignStmt(o *out, d int) {
	l, t := g.lhs("asl")
	if l == "" {
		g.declStmt(o, d)
		return
	}
	o.line("%s = %s", l, g.expr(t, g.exprDepth()))
	g.use("assign")
}

func (g *Gen) opAssignStmt(o *out, d int) {
	var cands []place
	for _, p := range g.places() {
		if p.assign && (p.t.Kind == KInt || p.t.Kind == KFloat || p.t.Kind == KString) {
			cands = append(cands, p)
		}
	}
	if len(cands) == 0 || !g.on("op-assign") {
		g.declStmt(o, d)
		return
	}
	p := cands[g.n(0, len(cands)-1, "opl")]
	switch p.t.Kind {
	case KString:
		o.line("%s += %s", p.code, g.expr(p.t, 1))
	case KFloat:
		op := []string{"+=", "-=", "*="}[g.n(0, 2, "fopa")]
		o.line("%s %s %s", p.code, op, g.expr(p.t, 1))
	default:
		ops := []string{"+=", "-=", "*=", "&=", "|=", "^=", "&^=", "/=", "%=", "<<=", ">>="}
		op := ops[g.pick("iopa", 5, 5, 3, 2, 2, 2, 1, 2, 2, 2, 2)]
		switch op {
		case "/=", "%=":
			o.line("%s %s (%s | 1)", p.code, op, g.nonConst(p.t, 1))
		case "<<=", ">>=":
			if !g.on("shifts") {
				o.line("%s += %s", p.code, g.expr(p.t, 1))
				break
			}
			o.line("%s %s %d", p.code, op, g.n(0, p.t.Bits, "sha"))
		default:
			o.line("%s %s %s", p.code, op, g.expr(p.t, g.n(0, 2, "oad")))
		}
	}
	g.use("op-assign")
}

func (g *Gen) incDecStmt(o *out) {
	var cands []place
	for _, p := range g.places() {
		if p.assign && (p.t.Kind == KInt || p.t.Kind == KFloat) {
			cands = append(cands, p)
		}
	}
	if len(cands) == 0 {
		g.printStmt(o, 1)
		return
	}
	p := cands[g.n(0, len(cands)-1, "idl")]
	o.line("%s%s", p.code, []string{"++", "--"}[g.n(0, 1, "idop")])
	g.use("inc-dec")
}

func (g *Gen) printStmt(o *out, d int) {
	n := g.n(1, 3, "pn")
	var args []string
	for i := 0; i < n; i++ {
		var t *Type
		if g.coin(60, "pbasic") {
			t = g.basicType("pt")
		} else {
			t = g.printableVarType()
			if t == nil {
				t = g.basicType("pt2")
			}
		}
		args = append(args, g.typedExpr(t, g.exprDepth()))
	}
	g.lbl++
	if g.on("printf") && g.coin(25, "printf") {
		verbs := strings.Repeat(" %v", len(args))
		o.line("fmt.Printf(\"p%d%s\\n\", %s)", g.lbl, verbs, strings.Join(args, ", "))
	} else {
		o.line("fmt.Println(\"p%d\", %s)", g.lbl, strings.Join(args, ", "))
	}
	g.use("print")
}

// typedExpr is an expression whose static type is t even without context
// (constants are wrapped in a conversion).
func (g *Gen) typedExpr(t *Type, d int) string {
	e, c := g.exprC(t, d)
	if c {
		return fmt.Sprintf("%s(%s)", t.Name, e)
	}
	return e
}

func (g *Gen) printableVarType() *Type {
	var cands []*Type
	for _, v := range g.visible() {
		if v.T.Printable() {
			cands = append(cands, v.T)
		}
	}
	if len(cands) == 0 {
		return nil
	}
	return cands[g.n(0, len(cands)-1, "pvt")]
}

func (g *Gen) ifStmt(o *out, d int) {
	init := ""
	cond := g.nonConstBool(g.n(1, 3, "ifd"))
	g.push()
	if g.on("if-init") && g.coin(25, "ifinit") {
		t := g.intType("iit")
		n := g.name("c")
		init = fmt.Sprintf("%s := %s; ", n, g.typedIfConst(t, g.expr(t, 2)))
		g.declare(&Var{Name: n, T: t})
		cond = fmt.Sprintf("%s > %s || %s", n, g.intLit(t, "iic"), cond)
		g.use("if-init")
	}
	o.line("if %s%s {", init, cond)
	o.raw(g.block(o.ind+1, g.n(1, 3, "ifn"), d-1))
	for g.coin(30, "elseif") {
		o.line("} else if %s {", g.nonConstBool(2))
		o.raw(g.block(o.ind+1, g.n(1, 2, "ein"), d-1))
		g.use("else-if")
	}
	if g.coin(50, "else") {
		o.line("} else {")
		o.raw(g.block(o.ind+1, g.n(1, 3, "eln"), d-1))
		g.use("else")
	}
	o.line("}")
	g.pop()
	g.use("if")
}

func (g *Gen) withLoop(o *out, header string, bound int, d int, pre func(b *out), label bool) {
	lbl := ""
	used := false
	if label && g.on("labels") && g.coin(35, "lbl") {
		// known finding: a label directly in a case clause body is "undefined"
		if g.on("label-in-case-clause") || len(g.clause) == 0 || !g.clause[len(g.clause)-1] {
			lbl = g.name("L")
		}
	}
	g.loops = append(g.loops, loopCtx{label: lbl, used: &used})
	oldMult := g.mult
	g.mult *= bound
	body := &out{ind: o.ind + 1}
	if pre != nil {
		pre(body)
	}
	n := g.n(1, 3, "lbn")
	if g.on("for-empty-body") && pre == nil && g.coin(4, "emptybody") {
		n = 0
		g.use("for-empty-body")
	}
	body.raw(g.block(o.ind+1, n, d-1))
	g.mult = oldMult
	g.loops = g.loops[:len(g.loops)-1]
	if lbl != "" && used {
		o.line("%s:", lbl)
		g.use("label")
	}
	o.line("%s {", header)
	o.raw(body.sb.String())
	o.line("}")
}

func (g *Gen) forStmt(o *out, d int) {
	k := g.n(1, 5, "fk")
	g.push()
	defer g.pop()
	switch g.pick("forkind", 6, 3, 2, 2) {
	case 0: // three-clause
		i := g.name("i")
		g.declare(&Var{Name: i, T: g.U.Int, RO: true})
		hdr := fmt.Sprintf("for %s := 0; %s < %d; %s++", i, i, k, i)
		if g.coin(20, "fordown") {
			hdr = fmt.Sprintf("for %s := %d; %s > 0; %s--", i, k, i, i)
		} else if g.coin(15, "forstep") {
			hdr = fmt.Sprintf("for %s := 0; %s < %d; %s += 2", i, i, 2*k, i)
		}
		g.withLoop(o, hdr, k, d, nil, true)
		g.use("for-clause")
	case 1: // condition only
		c := g.name("n")
		o.line("%s := 0", c)
		g.declareOuter(&Var{Name: c, T: g.U.Int, RO: true})
		cond := fmt.Sprintf("%s < %d", c, k)
		if g.coin(40, "forcond2") {
			cond += " && " + g.nonConstBool(1)
		}
		g.withLoop(o, "for "+cond, k, d, func(b *out) { b.line("%s++", c) }, true)
		g.use("for-cond")
	case 2: // infinite with break
		c := g.name("n")
		o.line("%s := 0", c)
		g.declareOuter(&Var{Name: c, T: g.U.Int, RO: true})
		g.withLoop(o, "for", k, d, func(b *out) {
			b.line("%s++", c)
			b.line("if %s > %d {", c, k)
			b.line("\tbreak")
			b.line("}")
		}, true)
		g.use("for-infinite")
	default: // loop over len of an array or slice variable
		var cands []*Var
		for _, v := range g.visible() {
			if v.T.Kind == KArray || v.T.Kind == KSlice {
				cands = append(cands, v)
			}
		}
		if len(cands) == 0 {
			i := g.name("i")
			g.declare(&Var{Name: i, T: g.U.Int, RO: true})
			g.withLoop(o, fmt.Sprintf("for %s := 0; %s < %d; %s++", i, i, k, i), k, d, nil, true)
			g.use("for-clause")
			return
		}
		v := cands[g.n(0, len(cands)-1, "flv")]
		i := g.name("i")
		g.declare(&Var{Name: i, T: g.U.Int, RO: true})
		v.pin++
		hdr := fmt.Sprintf("for %s := 0; %s < len(%s); %s++", i, i, v.Name, i)
		bound := 4
		if v.T.Kind == KArray {
			bound = v.T.N
		} else {
			// the slice may grow inside the body (append): freeze the bound
			nn := g.name("n")
			o.line("%s := len(%s)", nn, v.Name)
			g.declareOuter(&Var{Name: nn, T: g.U.Int, RO: true})
			hdr = fmt.Sprintf("for %s := 0; %s < %s; %s++", i, i, nn, i)
			bound = 6
		}
		elemT := v.T.Elem
		g.withLoop(o, hdr, bound, d, func(b *out) {
			if elemT.Printable() {
				b.line("fmt.Println(\"e\", %s, %s[%s])", i, v.Name, i)
			}
		}, true)
		v.pin--
		g.use("for-len")
	}
}

// declareOuter declares a variable in the scope enclosing the loop scope
// pushed by forStmt (the counter lives outside the loop).
func (g *Gen) declareOuter(v *Var) {
	i := len(g.scopes) - 2
	if i < 0 {
		i = 0
	}
	g.scopes[i] = append(g.scopes[i], v)
}

func (g *Gen) rangeStmt(o *out, d int) {
	type cand struct {
		code string
		t    *Type
		root *Var
	}
	var cands []cand
	for _, p := range g.places() {
		switch p.t.Kind {
		case KArray, KSlice, KString, KMap:
			cands = append(cands, cand{p.code, p.t, p.root})
		}
	}
	g.push()
	defer g.pop()
	kindW := []int{0, 0}
	if len(cands) > 0 {
		kindW[0] = 8
	}
	if g.on("range-int") {
		kindW[1] = 2
	}
	if kindW[0] == 0 && kindW[1] == 0 {
		g.printStmt(o, d)
		return
	}
	if g.pick("rkind", kindW...) == 1 {
		i := g.name("i")
		g.declare(&Var{Name: i, T: g.U.Int, RO: true})
		k := g.n(0, 5, "rik")
		g.withLoop(o, fmt.Sprintf("for %s := range %d", i, k), k+1, d, func(b *out) { b.line("_ = %s", i) }, true)
		g.use("range-int")
		return
	}
	c := cands[g.n(0, len(cands)-1, "rc")]
	c.root.pin++
	defer func() { c.root.pin-- }()
	switch c.t.Kind {
	case KMap:
		if !g.on("range-map") {
			g.printStmt(o, d)
			return
		}
		// order-insensitive: collect keys, sort, then iterate
		g.needSort = true
		ks := g.name("ks")
		k := g.name("k")
		o.line("%s := make([]%s, 0, len(%s))", ks, c.t.Key.Name, c.code)
		o.line("for %s := range %s {", k, c.code)
		o.line("\t%s = append(%s, %s)", ks, ks, k)
		o.line("}")
		o.line("sort.Slice(%s, func(a, b int) bool { return %s })", ks, lessExpr(c.t.Key, ks))
		g.declareOuter(&Var{Name: ks, T: g.U.SliceOf(c.t.Key), RO: true, Opaque: true})
		kv := g.name("k")
		g.declare(&Var{Name: kv, T: c.t.Key, RO: true})
		elemT := c.t.Elem
		g.withLoop(o, fmt.Sprintf("for _, %s := range %s", kv, ks), 4, d, func(b *out) {
			b.line("_ = %s", kv)
			if elemT.Printable() {
				b.line("fmt.Println(\"m\", %s, %s[%s])", kv, c.code, kv)
			}
		}, true)
		g.use("range-map-sorted")
	case KString:
		i, r := g.name("i"), g.name("r")
		switch g.pick("rsform", 5, 2, 2, 1) {
		case 0:
			g.declare(&Var{Name: i, T: g.U.Int, RO: true})
			g.declare(&Var{Name: r, T: g.U.all["int32"], RO: true})
			g.withLoop(o, fmt.Sprintf("for %s, %s := range %s", i, r, c.code), 8, d, func(b *out) {
				b.line("fmt.Println(\"r\", %s, %s)", i, r)
			}, true)
		case 1:
			// key only: the byte position of each rune
			g.declare(&Var{Name: i, T: g.U.Int, RO: true})
			g.withLoop(o, fmt.Sprintf("for %s := range %s", i, c.code), 8, d, func(b *out) {
				b.line("fmt.Println(\"ri\", %s)", i)
			}, true)
		case 2:
			g.declare(&Var{Name: r, T: g.U.all["int32"], RO: true})
			g.withLoop(o, fmt.Sprintf("for _, %s := range %s", r, c.code), 8, d, func(b *out) {
				b.line("fmt.Println(\"rr\", %s)", r)
			}, true)
		default:
			g.withLoop(o, fmt.Sprintf("for range %s", c.code), 8, d, func(b *out) {
				b.line("fmt.Println(\"rn\")")
			}, true)
		}
		g.use("range-string")
	default:
		i, e := g.name("i"), g.name("e")
		wAssign := 0
		if g.on("range-assign") {
			wAssign = 2
		}
		form := g.pick("rform", 5, 3, 2, wAssign)
		bound := 5
		if c.t.Kind == KArray {
			bound = c.t.N
		}
		code := c.code
		if c.t.Kind == KArray && g.on("range-array-pointer") && c.code == c.root.Name && g.coin(30, "rptr") {
			// range over a pointer to the array: no copy of the array is made
			code = "&" + c.code
			g.use("range-array-pointer")
		}
		switch form {
		case 3:
			// assignment form: the iteration values are assigned to variables
			// declared before the loop, which keep the last ones afterwards
			withElem := refFree(c.t.Elem) && g.coin(60, "rae")
			o.line("var %s int", i)
			g.declareOuter(&Var{Name: i, T: g.U.Int, RO: true})
			hdr := fmt.Sprintf("for %s = range %s", i, code)
			if withElem {
				o.line("var %s %s", e, c.t.Elem.Name)
				g.declareOuter(&Var{Name: e, T: c.t.Elem, LoopVar: true})
				hdr = fmt.Sprintf("for %s, %s = range %s", i, e, code)
				if g.coin(25, "rablank") {
					hdr = fmt.Sprintf("for _, %s = range %s", e, code)
				}
			}
			g.withLoop(o, hdr, bound, d, func(b *out) { b.line("_ = %s", i) }, true)
			o.line("fmt.Println(\"ra\", %s)", i)
			if withElem && c.t.Elem.Printable() {
				o.line("fmt.Println(\"rae\", %s)", e)
			}
			g.use("range-assign")
		case 0:
			g.declare(&Var{Name: i, T: g.U.Int, RO: true})
			g.declare(&Var{Name: e, T: c.t.Elem, LoopVar: true})
			g.withLoop(o, fmt.Sprintf("for %s, %s := range %s", i, e, code), bound, d, func(b *out) {
				b.line("_, _ = %s, %s", i, e)
			}, true)
		case 1:
			g.declare(&Var{Name: i, T: g.U.Int, RO: true})
			g.withLoop(o, fmt.Sprintf("for %s := range %s", i, code), bound, d, func(b *out) { b.line("_ = %s", i) }, true)
		default:
			g.declare(&Var{Name: e, T: c.t.Elem, LoopVar: true})
			g.withLoop(o, fmt.Sprintf("for _, %s := range %s", e, code), bound, d, func(b *out) {
				b.line("_ = %s", e)
			}, true)
		}
		if c.t.Kind == KArray {
			g.use("range-array")
		} else {
			g.use("range-slice")
		}
	}
}

func lessExpr(k *Type, ks string) string {
	if k.Kind == KBool {
		return fmt.Sprintf("!%s[a] && %s[b]", ks, ks)
	}
	return fmt.Sprintf("%s[a] < %s[b]", ks, ks)
}

func (g *Gen) switchStmt(o *out, d int) {
	g.push()
	defer g.pop()
	init, initVar := "", ""
	var initT *Type
	if g.on("switch-init") && g.coin(20, "swinit") {
		initT = g.intType("swit")
		initVar = g.name("c")
		init = fmt.Sprintf("%s := %s; ", initVar, g.typedIfConst(initT, g.expr(initT, 2)))
		g.declare(&Var{Name: initVar, T: initT, RO: true})
		g.use("switch-init")
	}
	tagless := g.coin(35, "tagless")
	var tagT *Type
	if tagless {
		o.line("switch %s{", init)
		g.use("switch-tagless")
	} else {
		tagT = g.basicType("swt")
		if tagT.Kind == KBool || tagT.Kind == KFloat {
			tagT = g.U.Int
		}
		tag := g.nonConst(tagT, 2)
		if initVar != "" {
			tagT, tag = initT, initVar
			if g.on("switch-init-tag-expr") && g.coin(50, "swtagexpr") {
				// the tag is an expression over the variable of the init statement
				tag = fmt.Sprintf("%s + %s", initVar, g.intLit(initT, "swtagk"))
				g.use("switch-init-tag-expr")
			}
		}
		o.line("switch %s%s {", init, tag)
		g.use("switch-tag")
	}
	n := g.n(1, 4, "swn")
	// clause headers; "" marks default
	var heads []string
	seen := map[string]bool{}
	for i := 0; i < n; i++ {
		if tagless {
			c := g.nonConstBool(2)
			if i == 0 && initVar != "" {
				c = fmt.Sprintf("%s > %s", initVar, g.intLit(initT, "swic"))
			}
			if g.on("switch-tagless-list") && g.coin(30, "swtl") {
				// a list of expressions, some of them constant
				more := g.nonConstBool(1)
				switch g.pick("swtlk", 5, 2, 2) {
				case 1:
					more = []string{"1 > 2", "\"a\" == \"b\"", "2 < 3 && false"}[g.n(0, 2, "swtlc")]
					g.use("switch-tagless-const")
				case 2:
					more = []string{"2 > 1", "\"a\" != \"b\""}[g.n(0, 1, "swtlc")]
					g.use("switch-tagless-const")
				}
				if g.coin(50, "swtlfirst") {
					c = more + ", " + c
				} else {
					c = c + ", " + more
				}
				g.use("switch-tagless-list")
			}
			heads = append(heads, "case "+c+":")
			continue
		}
		var cs []string
		m := g.n(1, 2, "swcn")
		for j := 0; j < m; j++ {
			var c string
			if tagT.Kind == KString {
				c = g.strLit("swc")
			} else {
				c = fmt.Sprint(g.n(0, 6, "swc"))
			}
			if !seen[c] {
				seen[c] = true
				cs = append(cs, c)
			}
		}
		if len(cs) == 0 {
			cs = []string{g.nonConst(tagT, 1)}
		}
		heads = append(heads, "case "+strings.Join(cs, ", ")+":")
	}
	if tagless && initVar != "" && n == 0 {
		heads = append(heads, fmt.Sprintf("case %s > 0:", initVar))
	}
	if g.coin(60, "swdef") {
		at := len(heads)
		if g.on("switch-default-middle") {
			at = g.n(0, len(heads), "swdefat")
		}
		if at != len(heads) {
			g.use("switch-default-middle")
		}
		heads = append(heads[:at], append([]string{"default:"}, heads[at:]...)...)
	}
	bodies := make([]string, len(heads))
	for i := range heads {
		g.nextIsClause = true
		bodies[i] = g.block(o.ind+1, g.n(0, 2, "swbn"), d-1)
	}
	last := len(heads) - 1
	for i, h := range heads {
		o.line("%s", h)
		o.raw(bodies[i])
		if !g.on("fallthrough") || i == last || !g.coin(15, "fallth") {
			continue
		}
		// known findings: fallthrough out of or into a default clause that is
		// not the last clause; fallthrough into a clause with an empty body
		if !g.on("fallthrough-default-not-last") && (h == "default:" || (heads[i+1] == "default:" && i+1 != last)) {
			continue
		}
		if !g.on("fallthrough-into-empty-clause") && strings.TrimSpace(bodies[i+1]) == "" {
			continue
		}
		o.line("\tfallthrough")
		g.use("fallthrough")
	}
	o.line("}")
	g.use("switch")
}

// jumpStmt emits `if cond { break|continue [label] | return ... }`.
func (g *Gen) jumpStmt(o *out, d int) {
	w := []int{0, 0, 2}
	if len(g.loops) > 0 {
		w[0], w[1] = 4, 4
	}
	if g.inFunc == nil && g.inClosure == 0 {
		w[2] = 1 // early return from main ends the program: keep it rare
	}
	if g.inClosure > 0 {
		w[2] = 0
		if len(g.loops) == 0 {
			g.printStmt(o, d)
			return
		}
	}
	cond := g.nonConstBool(2)
	switch g.pick("jump", w...) {
	case 0, 1:
		kw := "break"
		if g.pick("jk", 1, 1) == 1 {
			kw = "continue"
		}
		// which loop
		li := len(g.loops) - 1
		if len(g.loops) > 1 && g.coin(40, "outer") {
			li = g.n(0, len(g.loops)-1, "li")
		}
		l := g.loops[li]
		if l.label != "" && (li != len(g.loops)-1 || g.coin(50, "uselbl")) {
			*l.used = true
			o.line("if %s {", cond)
			o.line("\t%s %s", kw, l.label)
			o.line("}")
			g.use("labelled-" + kw)
			return
		}
		if li != len(g.loops)-1 {
			li = len(g.loops) - 1
		}
		o.line("if %s {", cond)
		o.line("\t%s", kw)
		o.line("}")
		g.use(kw)
	default:
		if g.inFunc == nil && !g.on("main-early-return") {
			g.printStmt(o, d)
			return
		}
		o.line("if %s {", cond)
		o.line("\tfmt.Println(\"ret\")")
		o.line("\treturn %s", g.returnExprs(1))
		o.line("}")
		g.use("early-return")
	}
}

func (g *Gen) returnExprs(d int) string {
	var rs []string
	for _, r := range g.results {
		rs = append(rs, g.expr(r, d))
	}
	return strings.Join(rs, ", ")
}

// gotoStmt emits a block with a backward and/or forward goto. No variable is
// declared at the level of the labels.
func (g *Gen) gotoStmt(o *out, d int) {
	if g.on("goto-redefine") && g.coin(35, "gotoredef") {
		g.gotoRedefine(o)
		return
	}
	c := g.name("n")
	back, fwd := g.name("L"), g.name("L")
	o.line("{")
	o.line("\t%s := 0", c)
	g.push()
	g.declare(&Var{Name: c, T: g.U.Int, RO: true})
	hasBack := g.coin(60, "gback")
	oldMult := g.mult
	if hasBack {
		g.mult *= 3
		o.line("%s:", back)
		o.line("\t%s++", c)
	}
	o.raw(g.simpleStmts(o.ind+1, g.n(1, 2, "gn1"), d-1))
	hasFwd := g.coin(60, "gfwd")
	if hasFwd {
		o.line("\tif %s {", g.nonConstBool(2))
		o.line("\t\tgoto %s", fwd)
		o.line("\t}")
		g.use("goto-forward")
	}
	o.raw(g.simpleStmts(o.ind+1, g.n(0, 2, "gn2"), d-1))
	if hasBack {
		o.line("\tif %s < 3 && %s {", c, g.nonConstBool(1))
		o.line("\t\tgoto %s", back)
		o.line("\t}")
		g.use("goto-backward")
	}
	g.mult = oldMult
	if hasFwd {
		o.line("%s:", fwd)
	}
	o.line("\tfmt.Println(\"g\", %s)", c)
	g.pop()
	o.line("}")
}

// simpleStmts are statements that declare nothing at their own level.
func (g *Gen) simpleStmts(ind, n, d int) string {
	o := &out{ind: ind}
	for i := 0; i < n; i++ {
		g.tick()
		switch g.pick("simple", 4, 3, 3, 2) {
		case 0:
			l, t := g.lhs("sal")
			if l == "" {
				g.printStmt(o, d)
				break
			}
			o.line("%s = %s", l, g.expr(t, 2))
			g.use("assign")
		case 1:
			g.printStmt(o, d)
		case 2:
			g.opAssignStmtNoDecl(o, d)
		default:
			if d > 0 {
				o.line("if %s {", g.nonConstBool(2))
				o.raw(g.block(ind+1, g.n(1, 2, "sbn"), d-1))
				o.line("}")
			} else {
				g.printStmt(o, d)
			}
		}
	}
	return o.sb.String()
}

func (g *Gen) opAssignStmtNoDecl(o *out, d int) {
	for _, p := range g.places() {
		if p.assign && (p.t.Kind == KInt || p.t.Kind == KFloat || p.t.Kind == KString) {
			g.opAssignStmt(o, d)
			return
		}
	}
	g.printStmt(o, d)
}

// closureStmt defines a closure variable and calls it (closures that write
// captured variables are called in statement position only).
func (g *Gen) closureStmt(o *out, d int) {
	wCall := 0
	if g.on("funclit-call-stmt") {
		wCall = 2
	}
	switch g.pick("clkind", 4, 3, 3, wCall) {
	case 3: // function literal called at once, as a statement of its own
		pt := g.basicType("flp")
		a := g.name("a")
		o.line("func(%s %s) {", a, pt.Name)
		g.push()
		g.inClosure++
		g.declare(&Var{Name: a, T: pt, RO: true})
		if pt.Printable() {
			o.line("\tfmt.Println(\"fl\", %s)", a)
		}
		o.raw(g.simpleStmts(o.ind+1, g.n(1, 2, "fln"), d-1))
		g.inClosure--
		g.pop()
		o.line("}(%s)", g.expr(pt, 2))
		g.use("funclit-call-stmt")
	case 0: // pure closure stored in a variable, used in an expression later
		pt, rt := g.basicType("clp"), g.basicType("clr")
		ft := g.U.FuncOf([]*Type{pt}, []*Type{rt})
		name := g.name("cl")
		o.line("%s := %s", name, g.funcLit(ft, 2))
		g.declare(&Var{Name: name, T: ft, RO: true})
		o.line("fmt.Println(\"c\", %s(%s))", name, g.expr(pt, 2))
		g.use("closure-var")
	case 1: // counter closure writing a captured variable
		cv := g.name("acc")
		ct := g.intType("acct")
		o.line("%s := %s(%s)", cv, ct.Name, g.intLit(ct, "accl"))
		name := g.name("cl")
		pt := ct
		op := []string{"+=", "-=", "^=", "*="}[g.n(0, 3, "accop")]
		o.line("%s := func(a %s) %s {", name, pt.Name, ct.Name)
		o.line("\t%s %s a", cv, op)
		o.line("\treturn %s", cv)
		o.line("}")
		k := g.n(1, 3, "acck")
		for i := 0; i < k; i++ {
			r := g.name("r")
			o.line("%s := %s(%s)", r, name, g.exprNoRead(pt, 2, cv))
			g.declare(&Var{Name: r, T: ct})
		}
		// acc stays readable but only the closure writes it
		g.declare(&Var{Name: cv, T: ct, RO: true})
		g.declare(&Var{Name: name, T: g.U.FuncOf([]*Type{pt}, []*Type{ct}), RO: true})
		g.use("closure-counter")
	default: // closures capturing the loop variable, called after the loop
		if !g.on("closure-loopvar") {
			g.printStmt(o, d)
			return
		}
		fs := g.name("fs")
		k := g.n(1, 4, "clk")
		i := g.name("i")
		o.line("%s := []func() int{}", fs)
		switch g.pick("cllv", 3, 2) {
		case 0:
			o.line("for %s := 0; %s < %d; %s++ {", i, i, k, i)
		default:
			o.line("for %s := range %d {", i, k)
		}
		x := g.name("x")
		// the per-iteration variable is defined from different source shapes:
		// each has its own "fresh variable on :=" path in the interpreter
		switch g.pick("cllvsrc", 3, 3, 2, 2) {
		case 0:
			o.line("\t%s := %s * 10", x, i)
			o.line("\t%s = append(%s, func() int { %s++; return %s + %s })", fs, fs, x, i, x)
		case 1:
			g.needIdent = true
			o.line("\t%s := identInt(%s * 10)", x, i)
			o.line("\t%s = append(%s, func() int { %s++; return %s + %s })", fs, fs, x, i, x)
			g.use("closure-loopvar-call")
		case 2:
			o.line("\t%s := [2]int{%s, %s * 10}", x, i, i)
			o.line("\t%s = append(%s, func() int { %s[0]++; return %s[0] + %s[1] })", fs, fs, x, x, x)
			g.use("closure-loopvar-array")
		default:
			g.needIdent = true
			y := g.name("y")
			o.line("\t%s, %s := identInt(%s), %s * 10", x, y, i, i)
			o.line("\t%s = append(%s, func() int { %s++; %s--; return %s*100 + %s })", fs, fs, x, y, x, y)
			g.use("closure-loopvar-multi")
		}
		o.line("}")
		f := g.name("f")
		o.line("for _, %s := range %s {", f, fs)
		o.line("\tfmt.Println(\"cl\", %s(), %s())", f, f)
		o.line("}")
		g.use("closure-loopvar")
	}
}

// exprNoRead returns an expression that does not mention name.
func (g *Gen) exprNoRead(t *Type, d int, name string) string {
	for i := 0; i < 4; i++ {
		e := g.expr(t, d)
		if !strings.Contains(e, name) {
			return e
		}
	}
	e, _ := g.lit(t, 0)
	return e
}

func (g *Gen) multiAssignStmt(o *out, d int) {
	switch g.pick("makind", 4, 3, 3) {
	case 0: // swap of two places of the same type
		var ps []place
		for _, p := range g.places() {
			if p.assign && p.t.Kind != KFunc {
				ps = append(ps, p)
			}
		}
		for tries := 0; tries < 4 && len(ps) >= 2; tries++ {
			a := ps[g.n(0, len(ps)-1, "swa")]
			var same []place
			for _, p := range ps {
				if p.t == a.t && p.code != a.code {
					same = append(same, p)
				}
			}
			if len(same) == 0 {
				continue
			}
			b := same[g.n(0, len(same)-1, "swb")]
			o.line("%s, %s = %s, %s", a.code, b.code, b.code, a.code)
			g.use("swap")
			return
		}
		g.assignStmt(o, d)
	case 1: // parallel assignment with expressions
		l1, t1 := g.lhs("ma1")
		l2, t2 := g.lhs("ma2")
		if l1 == "" || l2 == "" || overlaps(l1, l2) {
			g.assignStmt(o, d)
			return
		}
		o.line("%s, %s = %s, %s", l1, l2, g.expr(t1, 2), g.expr(t2, 2))
		g.use("parallel-assign")
	default: // multi-value call
		if !g.on("multi-value-define") {
			g.assignStmt(o, d)
			return
		}
		var cands []*fnInfo
		for _, f := range g.funcs {
			if len(f.Results) == 2 && !f.Mutating && f.Recv == nil && g.cost+g.mult*f.Cost <= g.budget {
				cands = append(cands, f)
			}
		}
		if len(cands) == 0 {
			g.assignStmt(o, d)
			return
		}
		f := cands[g.n(0, len(cands)-1, "mvf")]
		a, b := g.name("v"), g.name("v")
		o.line("%s, %s := %s", a, b, g.callExpr(f, 2))
		g.declare(&Var{Name: a, T: f.Results[0]})
		g.declare(&Var{Name: b, T: f.Results[1]})
		g.use("multi-value-define")
	}
}

// overlaps: two assignment targets may denote the same or overlapping
// memory (then the order of the assignments matters — it is specified, but
// keep the targets distinct so that swaps stay meaningful).
func overlaps(a, b string) bool {
	return a == b || strings.HasPrefix(a, b) || strings.HasPrefix(b, a)
}

func (g *Gen) callStmt(o *out, d int) {
	// pointer-receiver method on an addressable struct variable or through a pointer
	if len(g.pmethods) > 0 && g.coin(35, "pmcall") {
		m := g.pmethods[g.n(0, len(g.pmethods)-1, "pm")]
		var recvs []string
		for _, v := range g.visible() {
			if v.RO || !g.writableHere(v) {
				continue
			}
			if v.T == m.Recv || (v.T.Kind == KPtr && v.T.Elem == m.Recv) {
				recvs = append(recvs, v.Name)
			}
		}
		if len(recvs) > 0 && g.cost+g.mult*m.Cost <= g.budget {
			g.cost += g.mult * m.Cost
			r := recvs[g.n(0, len(recvs)-1, "pmr")]
			o.line("%s.%s(%s)", r, m.Name, g.exprNoRead(m.Params[0], 2, r))
			g.use("method-ptr-call")
			return
		}
	}
	var cands []*fnInfo
	for _, f := range g.funcs {
		if f.Recv == nil && g.cost+g.mult*f.Cost <= g.budget {
			cands = append(cands, f)
		}
	}
	if len(cands) == 0 {
		g.printStmt(o, d)
		return
	}
	f := cands[g.n(0, len(cands)-1, "csf")]
	call := g.callExpr(f, 2)
	switch {
	case len(f.Results) == 0:
		o.line("%s", call)
	case len(f.Results) == 1 && g.coin(70, "csassign"):
		n := g.name("v")
		o.line("%s := %s", n, call)
		g.declare(&Var{Name: n, T: f.Results[0]})
	case len(f.Results) == 1:
		// assignment of a call result to an existing place (skip-assign shortcut)
		var ps []place
		for _, p := range g.places() {
			if p.assign && p.t == f.Results[0] {
				ps = append(ps, p)
			}
		}
		if len(ps) == 0 || f.Mutating {
			o.line("_ = %s", call)
			break
		}
		p := ps[g.n(0, len(ps)-1, "csp")]
		o.line("%s = %s", p.code, call)
		g.use("assign-call-to-place")
	default:
		var us []string
		for range f.Results {
			us = append(us, "_")
		}
		o.line("%s = %s", strings.Join(us, ", "), call)
	}
	g.use("call-stmt")
}

func (g *Gen) deferStmt(o *out, d int) {
	g.lbl++
	t := g.basicType("dft")
	switch g.pick("dfk", 3, 3) {
	case 0:
		o.line("defer fmt.Println(\"d%d\", %s)", g.lbl, g.typedExpr(t, 2))
		g.use("defer-call")
	default:
		o.line("defer func(a %s) {", t.Name)
		o.line("\tfmt.Println(\"d%d\", a)", g.lbl)
		o.line("}(%s)", g.expr(t, 2))
		g.use("defer-lit")
	}
}

func (g *Gen) mapStmt(o *out, d int) {
	var cands []place
	for _, p := range g.places() {
		if p.t.Kind == KMap {
			cands = append(cands, p)
		}
	}
	if len(cands) == 0 {
		g.declStmt(o, d)
		return
	}
	p := cands[g.n(0, len(cands)-1, "mp")]
	k := g.expr(p.t.Key, 2)
	switch g.pick("mk", 4, 2, 3, 2) {
	case 0:
		o.line("%s[%s] = %s", p.code, k, g.expr(p.t.Elem, 2))
		g.use("map-assign")
	case 1:
		o.line("delete(%s, %s)", p.code, k)
		g.use("map-delete")
	case 2:
		if !g.on("map-comma-ok") {
			v := g.name("v")
			o.line("%s := %s[%s]", v, p.code, k)
			g.declare(&Var{Name: v, T: p.t.Elem})
			g.use("map-lookup")
			break
		}
		v, ok := g.name("v"), g.name("ok")
		o.line("%s, %s := %s[%s]", v, ok, p.code, k)
		g.declare(&Var{Name: v, T: p.t.Elem})
		g.declare(&Var{Name: ok, T: g.U.Bool})
		g.use("map-comma-ok")
	default:
		if p.t.Elem.Kind == KInt {
			o.line("%s[%s] += %s", p.code, k, g.expr(p.t.Elem, 1))
			g.use("map-op-assign")
		} else {
			o.line("%s[%s] = %s", p.code, k, g.expr(p.t.Elem, 2))
			g.use("map-assign")
		}
	}
}

func (g *Gen) sliceStmt(o *out, d int) {
	var cands []place
	for _, p := range g.places() {
		if p.t.Kind == KSlice && p.assign {
			cands = append(cands, p)
		}
	}
	if len(cands) == 0 {
		g.declStmt(o, d)
		return
	}
	p := cands[g.n(0, len(cands)-1, "sp")]
	g.needIdx = true
	switch g.pick("sk", 4, 2, 2, 2, 2) {
	case 0:
		n := g.n(1, 3, "apn")
		var es []string
		for i := 0; i < n; i++ {
			es = append(es, g.expr(p.t.Elem, 2))
		}
		o.line("%s = append(%s, %s)", p.code, p.code, strings.Join(es, ", "))
		g.use("append")
	case 1:
		o.line("%s = %s[:1+idx(%s, len(%s))]", p.code, p.code, g.nonConst(g.U.Int, 1), p.code)
		g.use("reslice-high")
	case 2:
		o.line("%s = %s[idx(%s, len(%s)):]", p.code, p.code, g.nonConst(g.U.Int, 1), p.code)
		g.use("reslice-low")
	case 3:
		if !refFree(p.t.Elem) {
			o.line("%s = append(%s, %s)", p.code, p.code, g.expr(p.t.Elem, 2))
			g.use("append")
			break
		}
		n := g.name("s")
		o.line("%s := make(%s, %d)", n, p.t.Name, g.n(1, 4, "mkn"))
		o.line("fmt.Println(\"cp\", copy(%s, %s))", n, p.code)
		g.declare(&Var{Name: n, T: p.t})
		g.use("make-copy")
	default:
		o.line("%s = append(%s[:1], %s...)", p.code, p.code, p.code)
		g.use("append-spread")
	}
}

// fault emits a deliberate panic or run-time fault (main only).
func (g *Gen) fault(o *out) {
	g.faulty = true
	switch g.pick("faultkind", 3, 2, 2, 2) {
	case 0:
		o.line("panic(%s)", []string{`"boom"`, "42", `fmt.Sprint("x", 1)`}[g.n(0, 2, "pv")])
		g.use("fault-panic")
	case 1:
		g.needIdx = true
		o.line("fmt.Println([]int{1, 2}[idx(%s, 2)+2])", g.nonConst(g.U.Int, 1))
		g.use("fault-index")
	case 2:
		z := g.globalOf(g.U.Int)
		o.line("fmt.Println(7 / (%s - %s))", z, z)
		g.use("fault-divzero")
	default:
		o.line("var np *struct{ a int }")
		o.line("fmt.Println(np.a)")
		g.use("fault-nil-deref")
	}
}

// gotoRedefine emits a backward goto that re-executes := statements outside
// any loop: each execution defines new variables, observed later through
// closures and pointers collected on the way.
func (g *Gen) gotoRedefine(o *out) {
	n, fs, ps, lbl := g.name("n"), g.name("fs"), g.name("ps"), g.name("L")
	x, y, z := g.name("x"), g.name("y"), g.name("z")
	k := g.n(2, 4, "grk")
	o.line("{")
	o.line("\t%s := 0", n)
	o.line("\t%s := []func() int{}", fs)
	o.line("\t%s := []*int{}", ps)
	o.line("%s:", lbl)
	o.line("\t%s++", n)
	switch g.pick("grform", 3, 2, 2) {
	case 0:
		o.line("\t%s := %s * 10", x, n)
	case 1:
		g.needIdent = true
		o.line("\t%s := identInt(%s * 10)", x, n)
	default:
		o.line("\t%s, %s := %s*10, %s", x, z, n, n)
		o.line("\t_ = %s", z)
	}
	o.line("\t%s := %s + 1", y, x)
	o.line("\t%s = append(%s, func() int { %s++; return %s*100 + %s })", fs, fs, x, x, y)
	o.line("\t%s = append(%s, &%s)", ps, ps, y)
	o.line("\tif %s < %d {", n, k)
	o.line("\t\tgoto %s", lbl)
	o.line("\t}")
	f, p := g.name("f"), g.name("p")
	o.line("\tfor _, %s := range %s {", f, fs)
	o.line("\t\tfmt.Println(\"gr\", %s(), %s())", f, f)
	o.line("\t}")
	o.line("\tfor _, %s := range %s {", p, ps)
	o.line("\t\t*%s += 1000", p)
	o.line("\t\tfmt.Println(\"gp\", *%s)", p)
	o.line("\t}")
	o.line("}")
	g.use("goto-redefine")
}
