package progen

import (
	"fmt"
	"sort"
	"strings"

	"pgregory.net/rapid"
)

// DefaultConfig is the full C01 profile.
func DefaultConfig() *Config {
	return &Config{Off: map[string]bool{}, Stmts: 14, Funcs: 3, MaxDepth: 3, FaultPct: 12}
}

// Generate draws one program.
func Generate(t *rapid.T, cfg *Config) *Program {
	g := &Gen{t: t, cfg: cfg, U: newUniverse(), used: map[string]int{}, mult: 1}
	g.genStructs()
	var decls []string

	// helper functions (each may call the earlier ones)
	nf := g.n(0, cfg.Funcs, "nfuncs")
	for i := 0; i < nf; i++ {
		decls = append(decls, g.genFunc(i))
	}
	if g.on("methods") && len(g.U.Structs) > 0 {
		nm := g.n(0, 2, "nmethods")
		for i := 0; i < nm; i++ {
			decls = append(decls, g.genMethod(i))
		}
		if g.on("ptr-methods") {
			np := g.n(0, 2, "nptrmethods")
			for i := 0; i < np; i++ {
				if d := g.genPtrMethod(i); d != "" {
					decls = append(decls, d)
				}
			}
		}
	}

	// main
	g.inFunc = nil
	g.results = nil
	g.cost, g.budget = 0, 150_000
	g.scopes = nil
	n := g.n(cfg.Stmts/2, cfg.Stmts, "mainstmts")
	if cfg.FaultPct > 0 && g.coin(cfg.FaultPct, "faulty") {
		g.faultAt = g.stmtCount + g.n(1, n, "faultat")
	}
	body := g.mainBody(n)

	parts := Parts{Imports: []string{"fmt"}, Main: g.mainStmts}
	if g.needSort {
		parts.Imports = append(parts.Imports, "sort")
	}
	for _, st := range g.U.Structs {
		var b strings.Builder
		fmt.Fprintf(&b, "type %s struct {\n", st.Name)
		for _, f := range st.Fields {
			fmt.Fprintf(&b, "\t%s %s\n", f.Name, f.Type.Name)
		}
		b.WriteString("}\n")
		parts.Types = append(parts.Types, b.String())
	}
	for _, v := range g.globals {
		lit, _ := g.lit(v.T, 0)
		parts.Globals = append(parts.Globals, fmt.Sprintf("var %s %s = %s\n", v.Name, v.T.Name, lit))
	}
	if g.needIdx {
		parts.Funcs = append(parts.Funcs, "func idx(i, n int) int {\n\ti %= n\n\tif i < 0 {\n\t\ti += n\n\t}\n\treturn i\n}\n")
	}
	if g.needIdent {
		parts.Funcs = append(parts.Funcs, "func identInt(x int) int { return x }\n")
	}
	itypes, ifuncs := g.idiomDecls()
	parts.Types = append(parts.Types, itypes...)
	for _, h := range ifuncs {
		parts.Funcs = append(parts.Funcs, strings.TrimSuffix(h, "\n"))
	}
	for _, h := range g.newHelpers() {
		parts.Funcs = append(parts.Funcs, strings.TrimSuffix(h, "\n"))
	}
	parts.Funcs = append(parts.Funcs, decls...)

	var sb strings.Builder
	sb.WriteString("package main\n\nimport (\n")
	for _, im := range parts.Imports {
		fmt.Fprintf(&sb, "\t%q\n", im)
	}
	sb.WriteString(")\n\n")
	for _, d := range parts.Types {
		sb.WriteString(d + "\n")
	}
	for _, d := range parts.Globals {
		sb.WriteString(d)
	}
	sb.WriteString("\n")
	for _, d := range parts.Funcs {
		sb.WriteString(d + "\n")
	}
	sb.WriteString("func main() {\n")
	sb.WriteString(body)
	sb.WriteString("}\n")
	return &Program{Src: sb.String(), Used: g.used, Faulty: g.faulty, Parts: parts, ShadowedGlobals: sortedNames(g.shadowedGlobals)}
}

// Parts are the pieces of a program, for piecewise evaluation: Main holds the
// top-level statements of main, one entry per statement (possibly compound).
type Parts struct {
	Imports []string
	Types   []string
	Globals []string
	Funcs   []string
	Main    []string
}

func (g *Gen) mainBody(n int) string {
	g.push()
	g.blockID++
	id := g.blockID
	var all strings.Builder
	one := func(f func(o *out)) {
		o := &out{ind: 1}
		f(o)
		if o.sb.Len() > 0 {
			g.mainStmts = append(g.mainStmts, o.sb.String())
			all.WriteString(o.sb.String())
		}
	}
	// a few initial variables so that expressions have material
	for i := 0; i < 3; i++ {
		one(func(o *out) { g.declStmt(o, 2) })
	}
	for i := 0; i < n; i++ {
		one(func(o *out) { g.stmt(o, g.cfg.MaxDepth) })
	}
	one(func(o *out) { g.endBlock(o, id) })
	g.pop()
	return all.String()
}

// newHelpers returns the constructor helpers `newT(v T) *T` that the program
// text refers to.
func (g *Gen) newHelpers() []string {
	var out []string
	for _, name := range sortedFeatures(g.newNeeded) {
		t := g.U.all[name]
		out = append(out, fmt.Sprintf("func new%s(v %s) *%s { return &v }\n\n", mangle(t), t.Name, t.Name))
	}
	return out
}

// genFunc generates helper function number i.
func (g *Gen) genFunc(i int) string {
	f := &fnInfo{Name: fmt.Sprintf("fn%d", i)}
	recursive := g.on("recursion") && g.coin(25, "recursive")
	np := g.n(0, 3, "nparams")
	g.scopes = nil
	g.push()
	var ps []string
	if recursive {
		f.Depth = true
		f.Params = append(f.Params, g.U.Int)
		ps = append(ps, "depth int")
		g.declare(&Var{Name: "depth", T: g.U.Int, RO: true})
	}
	// parameters without names (all of them, the language does not mix the two
	// forms), or blank ones: they still receive arguments
	unnamed, blank := false, -1
	if g.on("unnamed-params") && np > 0 {
		switch g.pick("pnames", 80, 10, 10) {
		case 1:
			unnamed = !recursive
		case 2:
			blank = g.n(0, np-1, "blankp")
		}
	}
	for j := 0; j < np; j++ {
		t := g.anyType(1, "ptype")
		n := fmt.Sprintf("p%d", j)
		f.Params = append(f.Params, t)
		switch {
		case unnamed:
			ps = append(ps, t.Name)
			g.use("unnamed-params")
			continue
		case j == blank:
			ps = append(ps, "_ "+t.Name)
			g.use("blank-param")
			continue
		}
		ps = append(ps, n+" "+t.Name)
		g.declare(&Var{Name: n, T: t})
		if !valueOnly(t) {
			f.Mutating = true
		}
	}
	nr := g.pick("nresults", 1, 6, 2)
	if !g.on("multi-value") && nr == 2 {
		nr = 1
	}
	for j := 0; j < nr; j++ {
		f.Results = append(f.Results, g.anyType(1, "rtype"))
	}
	if recursive && nr == 0 {
		f.Results = []*Type{g.basicType("rrt")}
	}
	// named results are variables of the function: its statements read and
	// assign them, and the return statements list them among other values
	named := g.on("named-results") && len(f.Results) > 0 && g.coin(35, "namedres")
	var resNames []string
	if named {
		for j, r := range f.Results {
			n := fmt.Sprintf("res%d", j)
			resNames = append(resNames, n+" "+r.Name)
			g.declare(&Var{Name: n, T: r})
		}
		g.use("named-results")
	}
	g.inFunc = f
	g.results = f.Results
	g.cost, g.budget, g.mult = 0, 3000, 1
	o := &out{ind: 1}
	g.blockID++
	id := g.blockID
	if recursive {
		o.line("if depth <= 0 {")
		o.line("\treturn %s", g.returnExprs(1))
		o.line("}")
	}
	n := g.n(1, 5, "fstmts")
	for k := 0; k < n; k++ {
		g.stmt(o, 2)
	}
	if recursive {
		// one or two self calls with decreasing depth
		k := g.n(1, 2, "selfcalls")
		for c := 0; c < k; c++ {
			var args []string
			args = append(args, "depth-1")
			for _, p := range f.Params[1:] {
				args = append(args, g.expr(p, 1))
			}
			var ls []string
			for _, r := range f.Results {
				n := g.name("r")
				ls = append(ls, n)
				g.declare(&Var{Name: n, T: r})
			}
			o.line("%s := %s(%s)", strings.Join(ls, ", "), f.Name, strings.Join(args, ", "))
		}
		g.use("recursion")
	}
	g.endBlock(o, id)
	if len(f.Results) > 0 {
		if named && g.coin(40, "barereturn") {
			o.line("return")
			g.use("bare-return")
		} else {
			o.line("return %s", g.returnExprs(2))
		}
	}
	g.pop()
	f.Cost = g.cost + 5
	if recursive {
		f.Cost *= 16
	}
	g.inFunc = nil
	g.funcs = append(g.funcs, f)
	var rs []string
	for _, r := range f.Results {
		rs = append(rs, r.Name)
	}
	res := ""
	if named {
		res = " (" + strings.Join(resNames, ", ") + ")"
	} else if len(rs) == 1 {
		res = " " + rs[0]
	} else if len(rs) > 1 {
		res = " (" + strings.Join(rs, ", ") + ")"
	}
	g.use("func")
	return fmt.Sprintf("func %s(%s)%s {\n%s}\n", f.Name, strings.Join(ps, ", "), res, o.sb.String())
}

// valueOnly: passing a value of this type cannot alias caller memory.
func valueOnly(t *Type) bool { return refFree(t) }

// genMethod generates a method on a struct type: value receivers are pure,
// pointer receivers mutate a field.
func (g *Gen) genMethod(i int) string {
	st := g.U.Structs[g.n(0, len(g.U.Structs)-1, "mrecv")]
	g.scopes = nil
	g.push()
	defer g.pop()
	rt := g.basicType("mrt")
	name := fmt.Sprintf("M%d", i)
	g.inFunc = &fnInfo{Name: name}
	defer func() { g.inFunc = nil }()
	g.results = []*Type{rt}
	g.cost, g.budget, g.mult = 0, 1000, 1
	g.declare(&Var{Name: "r", T: st, RO: true})
	pt := g.basicType("mpt")
	g.declare(&Var{Name: "a", T: pt})
	body := fmt.Sprintf("\tfmt.Println(%q, a)\n\treturn %s\n", name, g.expr(rt, 2))
	g.use("method-value-recv")
	_ = body
	f := &fnInfo{Name: name, Params: []*Type{pt}, Results: []*Type{rt}, Cost: 5, Recv: st, RecvBase: st}
	g.methods = append(g.methods, f)
	return fmt.Sprintf("func (r %s) %s(a %s) %s {\n%s}\n", st.Name, name, pt.Name, rt.Name, body)
}

// genPtrMethod generates a pointer-receiver method that updates a numeric
// field of its receiver and prints it; it is only called in statement position.
func (g *Gen) genPtrMethod(i int) string {
	st := g.U.Structs[g.n(0, len(g.U.Structs)-1, "precv")]
	var fields []Field
	for _, f := range st.Fields {
		if f.Type.Kind == KInt {
			fields = append(fields, f)
		}
	}
	if len(fields) == 0 {
		return ""
	}
	f := fields[g.n(0, len(fields)-1, "pfield")]
	name := fmt.Sprintf("P%d", i)
	op := []string{"+=", "-=", "^=", "*="}[g.n(0, 3, "pop")]
	g.pmethods = append(g.pmethods, &fnInfo{Name: name, Params: []*Type{f.Type}, Cost: 4, Recv: st, RecvBase: st, Mutating: true})
	g.use("method-ptr-recv")
	return fmt.Sprintf("func (r *%s) %s(a %s) {\n\tr.%s %s a\n\tfmt.Println(%q, r.%s)\n}\n", st.Name, name, f.Type.Name, f.Name, op, name, f.Name)
}

func sortedNames(m map[string]bool) []string {
	var out []string
	for k := range m {
		out = append(out, k)
	}
	sort.Strings(out)
	return out
}
