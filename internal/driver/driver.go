// Package driver implements the vcheck command: orchestration of shards, replays and evidence.
//
//	vcheck run <ID> quick|thorough     orchestrate: replays, shards, evidence
//	vcheck shard <ID> <tier> <i> <n> <cases> <scratch> <out>
//	vcheck replay <ID> <path>          re-run one stored case
//	vcheck replay-raw <ID> <path>      same, JSON verdict on stdout
//	vcheck worker ...                  interpreter worker (internal/yrun)
package driver

import (
	"encoding/json"
	"fmt"
	"os"
	"os/exec"
	"os/signal"
	"path/filepath"
	"sort"
	"strconv"
	"strings"
	"sync"
	"syscall"
	"time"

	"verif/internal/vf"
	"verif/internal/yrun"
)

func Main() {
	if len(os.Args) < 2 {
		usage()
	}
	switch os.Args[1] {
	case "run":
		if len(os.Args) < 4 {
			usage()
		}
		os.Exit(run(os.Args[2], os.Args[3]))
	case "shard":
		shard(os.Args[2:])
	case "replay":
		if len(os.Args) < 4 {
			usage()
		}
		os.Exit(replay(os.Args[2], os.Args[3], false))
	case "replay-raw":
		os.Exit(replay(os.Args[2], os.Args[3], true))
	case "worker":
		yrun.WorkerMain(os.Args[2:])
	case "list":
		fmt.Println(strings.Join(vf.IDs(), " "))
	default:
		usage()
	}
}

func usage() {
	fmt.Fprintln(os.Stderr, "usage: vcheck run|replay|list ...")
	os.Exit(2)
}

func seedEnv() int64 {
	s := os.Getenv("VERIF_SEED")
	if s == "" {
		return 1
	}
	n, err := strconv.ParseInt(s, 10, 64)
	if err != nil {
		return 1
	}
	if n < 0 {
		n = -n
	}
	return n % 1_000_000_000
}

type verdict struct {
	Msg string `json:"msg"`
	Sig string `json:"sig"`
}

func replay(id, path string, raw bool) int {
	c := vf.Lookup(id)
	if c == nil || c.Replay == nil {
		fmt.Fprintf(os.Stderr, "no replay for %s\n", id)
		return 2
	}
	rf, err := vf.LoadReplay(path)
	if err != nil {
		fmt.Fprintln(os.Stderr, err)
		return 2
	}
	scratch, _ := os.MkdirTemp("", "vreplay-")
	defer os.RemoveAll(scratch)
	ctx := vf.NewCtx(c, "quick", seedEnv(), 0, 1, 1, scratch)
	msg, sig := c.Replay(ctx, rf.Case)
	if raw {
		b, _ := json.Marshal(verdict{msg, sig})
		fmt.Println(string(b))
		return 0
	}
	if msg != "" {
		k := vf.KnownFor(id, sig)
		if k == nil {
			// a replay file registered for a known finding reports that finding
			for _, e := range vf.LoadKnown() {
				if e.Property == id && e.Status == "known" && e.Replay != "" && strings.HasSuffix(filepath.Clean(path), filepath.Clean(e.Replay)) {
					e := e
					k = &e
				}
			}
		}
		if k != nil {
			fmt.Printf("KNOWN-FINDING: property=%s %s\n", id, k.What)
			fmt.Printf("detail: %s\n", msg)
			return 0
		}
		fmt.Printf("detail: [%s] %s\n", sig, msg)
		fmt.Printf("VIOLATION property=%s replay=%s\n", id, path)
		return 1
	}
	fmt.Printf("replay %s: property held\n", path)
	return 0
}

func shard(a []string) {
	if len(a) < 7 {
		usage()
	}
	c := vf.Lookup(a[0])
	if c == nil {
		os.Exit(2)
	}
	i, _ := strconv.Atoi(a[2])
	n, _ := strconv.Atoi(a[3])
	cases, _ := strconv.Atoi(a[4])
	ctx := vf.NewCtx(c, a[1], seedEnv(), i, n, cases, a[5])
	_ = os.MkdirAll(a[5], 0o755)
	func() {
		defer func() {
			if r := recover(); r != nil {
				ctx.Inconclusive("shard panic: %v", r)
			}
		}()
		c.Run(ctx)
	}()
	b, _ := json.Marshal(ctx.Result())
	if err := os.WriteFile(a[6], b, 0o644); err != nil {
		os.Exit(2)
	}
}

type evidence struct {
	PropertyID  string         `json:"property_id"`
	Tier        string         `json:"tier"`
	Seed        int64          `json:"seed"`
	Level       string         `json:"level"`
	Coverage    map[string]any `json:"coverage"`
	Assumptions []string       `json:"assumptions"`
	WallS       float64        `json:"wall_s"`
	Violations  int            `json:"violations"`
}

func run(id, tier string) int {
	start := time.Now()
	c := vf.Lookup(id)
	if c == nil {
		fmt.Fprintf(os.Stderr, "unknown check %s (have %v)\n", id, vf.IDs())
		return 2
	}
	if tier != "quick" && tier != "thorough" {
		usage()
	}
	self, err := os.Executable()
	if err != nil {
		fmt.Fprintln(os.Stderr, err)
		return 2
	}
	seed := seedEnv()
	scratch, err := os.MkdirTemp("", "verif-"+id+"-")
	if err != nil {
		fmt.Fprintln(os.Stderr, err)
		return 2
	}
	var procs sync.Map
	cleanup := func() {
		procs.Range(func(k, _ any) bool {
			if p, ok := k.(*exec.Cmd); ok && p.Process != nil {
				_ = syscall.Kill(-p.Process.Pid, syscall.SIGKILL)
			}
			return true
		})
		os.RemoveAll(scratch)
	}
	defer cleanup()
	sigc := make(chan os.Signal, 1)
	signal.Notify(sigc, syscall.SIGINT, syscall.SIGTERM)
	go func() { <-sigc; cleanup(); os.Exit(2) }()

	_ = os.RemoveAll(filepath.Join(vf.Root, "replays", "found", id))

	var knownSeen, knownGone []string
	violations := 0
	inconclusive := []string{}

	// 1. replays of known and fixed findings
	for _, k := range vf.LoadKnown() {
		if k.Property != id || k.Replay == "" {
			continue
		}
		cmd := exec.Command(self, "replay-raw", id, k.Replay)
		if c.Race {
			rdir := filepath.Join(scratch, "replay-race")
			_ = os.MkdirAll(rdir, 0o755)
			cmd.Env = append(os.Environ(), "GORACE=log_path="+filepath.Join(rdir, "race")+" halt_on_error=0 exitcode=0", "VERIF_RACE_DIR="+rdir)
		}
		cmd.SysProcAttr = &syscall.SysProcAttr{Setpgid: true}
		cmd.Stderr = os.Stderr
		procs.Store(cmd, true)
		out, err := runTimeout(cmd, 5*time.Minute)
		procs.Delete(cmd)
		var v verdict
		if err != nil || json.Unmarshal(lastLine(out), &v) != nil {
			inconclusive = append(inconclusive, fmt.Sprintf("replay %s did not complete: %v", k.Replay, err))
			continue
		}
		switch k.Status {
		case "known":
			if v.Msg != "" {
				fmt.Printf("KNOWN-FINDING: property=%s %s\n", id, k.What)
				knownSeen = append(knownSeen, k.Key)
			} else {
				knownGone = append(knownGone, k.Key)
			}
		case "fixed":
			if v.Msg != "" {
				fmt.Printf("detail: fixed finding %q returned: %s\n", k.Key, v.Msg)
				fmt.Printf("VIOLATION property=%s replay=%s\n", id, filepath.Join(vf.Root, k.Replay))
				violations++
			}
		}
	}

	// 2. shards
	nshards := c.Shards[tier]
	if nshards <= 0 {
		nshards = 1
	}
	total := c.Cases[tier]
	if s := os.Getenv("VERIF_CASES"); s != "" {
		if n, err := strconv.Atoi(s); err == nil {
			total = n
		}
	}
	results := make([]*vf.ShardResult, nshards)
	var wg sync.WaitGroup
	var mu sync.Mutex
	limit := 4 * time.Hour
	if tier == "quick" {
		limit = 25 * time.Minute
	}
	for i := 0; i < nshards; i++ {
		cases := total / nshards
		if i < total%nshards {
			cases++
		}
		wg.Add(1)
		go func(i, cases int) {
			defer wg.Done()
			sdir := filepath.Join(scratch, fmt.Sprintf("s%02d", i))
			out := filepath.Join(scratch, fmt.Sprintf("r%02d.json", i))
			cmd := exec.Command(self, "shard", id, tier, strconv.Itoa(i), strconv.Itoa(nshards), strconv.Itoa(cases), sdir, out)
			if c.Race {
				// the check binary is built with -race: reports go to files the shard reads after every case
				_ = os.MkdirAll(sdir, 0o755)
				cmd.Env = append(os.Environ(), "GORACE=log_path="+filepath.Join(sdir, "race")+" halt_on_error=0 exitcode=0", "VERIF_RACE_DIR="+sdir)
			}
			cmd.SysProcAttr = &syscall.SysProcAttr{Setpgid: true}
			cmd.Stderr = os.Stderr
			cmd.Stdout = os.Stderr
			procs.Store(cmd, true)
			_, err := runTimeout(cmd, limit)
			procs.Delete(cmd)
			var r vf.ShardResult
			b, rerr := os.ReadFile(out)
			if rerr != nil || json.Unmarshal(b, &r) != nil {
				mu.Lock()
				inconclusive = append(inconclusive, fmt.Sprintf("shard %d died: %v", i, err))
				mu.Unlock()
				return
			}
			results[i] = &r
		}(i, cases)
	}
	wg.Wait()

	// 3. merge
	ev := evidence{PropertyID: id, Tier: tier, Seed: seed, Level: c.Level, Assumptions: c.Assumptions}
	if ev.Assumptions == nil {
		ev.Assumptions = []string{}
	}
	nt := map[uint64]bool{}
	classes := map[string]int{}
	excluded := map[string]int{}
	var samples []any
	var notes []string
	extra := map[string]any{}
	evals, requested, completed := 0, 0, 0
	var viols []vf.Violation
	for _, r := range results {
		if r == nil {
			continue
		}
		evals += r.Evaluations
		requested += r.Requested
		completed += r.Completed
		for _, h := range r.Nontrivial {
			nt[h] = true
		}
		for k, v := range r.Classes {
			classes[k] += v
		}
		for k, v := range r.Excluded {
			excluded[k] += v
		}
		if len(samples) < 8 {
			for _, s := range r.Samples {
				if len(samples) < 8 {
					samples = append(samples, s)
				}
			}
		}
		notes = append(notes, r.Notes...)
		for k, v := range r.Extra {
			if f, ok := v.(float64); ok {
				if g, ok := extra[k].(float64); ok {
					extra[k] = f + g
					continue
				}
			}
			extra[k] = v
		}
		inconclusive = append(inconclusive, r.Inconclusive...)
		viols = append(viols, r.Violations...)
	}
	seenKnown := map[string]bool{}
	var foundList []map[string]string
	for _, v := range viols {
		if v.Known != "" {
			if !seenKnown[v.Sig] {
				seenKnown[v.Sig] = true
				already := false
				for _, k := range knownSeen {
					if k == v.Sig {
						already = true
					}
				}
				if !already {
					fmt.Printf("KNOWN-FINDING: property=%s %s\n", id, v.Known)
					knownSeen = append(knownSeen, v.Sig)
				}
			}
			continue
		}
		fmt.Printf("detail: [%s] %s\n", v.Sig, oneLine(v.Msg, 600))
		fmt.Printf("VIOLATION property=%s replay=%s\n", id, v.Replay)
		foundList = append(foundList, map[string]string{"sig": v.Sig, "replay": v.Replay})
		violations++
	}
	if completed < requested && violations == 0 {
		inconclusive = append(inconclusive, fmt.Sprintf("only %d of %d requested cases completed", completed, requested))
	}
	sort.Strings(notes)
	ev.Coverage = map[string]any{
		"evaluations":                   evals,
		"distinct_nontrivial":           len(nt),
		"rule":                          c.Rule,
		"samples":                       samples,
		"classes":                       classes,
		"excluded_by_construction":      excluded,
		"known_findings_seen":           orEmpty(knownSeen),
		"known_findings_not_reproduced": orEmpty(knownGone),
		"shards":                        nshards,
		"requested_cases":               requested,
		"completed_cases":               completed,
		"inconclusive":                  orEmpty(inconclusive),
		"notes":                         orEmpty(uniq(notes)),
		"exhaustive":                    c.Exhaustive,
	}
	for k, v := range extra {
		ev.Coverage[k] = v
	}
	if len(foundList) > 0 {
		ev.Coverage["violations_found"] = foundList
	}
	if samples == nil {
		ev.Coverage["samples"] = []any{}
	}
	ev.Violations = violations
	ev.WallS = time.Since(start).Seconds()
	b, _ := json.MarshalIndent(ev, "", " ")
	// The evidence directory only holds runs against /repo itself: a development
	// run against a scratch copy of the repository (VERIF_REPO) writes elsewhere.
	evDir := filepath.Join(vf.Root, "evidence")
	if os.Getenv("VERIF_REPO") != "" {
		evDir = filepath.Join(vf.Root, "scratch", "evidence-alt")
	}
	_ = os.MkdirAll(evDir, 0o755)
	if err := os.WriteFile(filepath.Join(evDir, id+".json"), b, 0o644); err != nil {
		fmt.Fprintln(os.Stderr, err)
		return 2
	}
	fmt.Printf("%s %s seed=%d: evaluations=%d nontrivial=%d violations=%d known=%d wall=%.1fs\n",
		id, tier, seed, evals, len(nt), violations, len(knownSeen), ev.WallS)
	if violations > 0 {
		return 1
	}
	if len(inconclusive) > 0 {
		for _, s := range inconclusive {
			fmt.Printf("INCONCLUSIVE: %s\n", oneLine(s, 1500))
		}
		return 2
	}
	return 0
}

func orEmpty(s []string) []string {
	if s == nil {
		return []string{}
	}
	return s
}

func uniq(s []string) []string {
	var out []string
	for i, x := range s {
		if i == 0 || x != s[i-1] {
			out = append(out, x)
		}
	}
	return out
}

func oneLine(s string, max int) string {
	s = strings.ReplaceAll(s, "\n", "\\n")
	if len(s) > max {
		s = s[:max] + "…"
	}
	return s
}

func lastLine(b []byte) []byte {
	s := strings.TrimSpace(string(b))
	if i := strings.LastIndexByte(s, '\n'); i >= 0 {
		s = s[i+1:]
	}
	return []byte(s)
}

func runTimeout(cmd *exec.Cmd, d time.Duration) ([]byte, error) {
	var out strings.Builder
	if cmd.Stdout == nil {
		cmd.Stdout = &out
	}
	if err := cmd.Start(); err != nil {
		return nil, err
	}
	done := make(chan error, 1)
	go func() { done <- cmd.Wait() }()
	select {
	case err := <-done:
		return []byte(out.String()), err
	case <-time.After(d):
		_ = syscall.Kill(-cmd.Process.Pid, syscall.SIGKILL)
		<-done
		return []byte(out.String()), fmt.Errorf("timeout after %v", d)
	}
}
