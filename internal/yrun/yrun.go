// Package yrun runs programs under the yaegi interpreter, in-process or in
// worker subprocesses of the check binary, with an operation budget (counted
// through the verif step hook) instead of wall-clock limits.
package yrun

import (
	"bufio"
	"bytes"
	"context"
	"encoding/json"
	"errors"
	"fmt"
	"io"
	"os"
	"os/exec"
	"path/filepath"
	"reflect"
	"strings"
	"sync"
	"sync/atomic"
	"syscall"
	"testing/fstest"
	"time"

	"github.com/traefik/yaegi/interp"
	"github.com/traefik/yaegi/stdlib"
)

// Job is one interpreter run.
type Job struct {
	ID int `json:"id"`
	// Src is evaluated with Compile+Execute when Path is empty.
	Src  string `json:"src,omitempty"`
	Name string `json:"name,omitempty"`
	// Path is evaluated with EvalPath; GoPath is the interpreter's GOPATH.
	GoPath string `json:"gopath,omitempty"`
	Path   string `json:"path,omitempty"`
	// Files, if set, is an in-memory source filesystem (fstest.MapFS).
	Files map[string]string `json:"files,omitempty"`
	Tags  []string          `json:"tags,omitempty"`
	Env   []string          `json:"env,omitempty"`
	Args  []string          `json:"args,omitempty"`
	// NoArgs: Options.Args is an empty, non-nil slice (Args is ignored).
	NoArgs bool   `json:"no_args,omitempty"`
	Stdin  string `json:"stdin,omitempty"`
	// OpBudget bounds the interpreted operations (0 = DefaultBudget).
	OpBudget uint64 `json:"op_budget,omitempty"`
	// After are sources evaluated on the same interpreter afterwards.
	After        []string `json:"after,omitempty"`
	Unrestricted bool     `json:"unrestricted,omitempty"`
	GOOS         string   `json:"goos,omitempty"`
	GOARCH       string   `json:"goarch,omitempty"`
	Release      []string `json:"release,omitempty"`
	// BeforePath, if set, is evaluated with EvalPath on the same interpreter
	// before Path.
	BeforePath string `json:"before_path,omitempty"`
	// Test selects EvalTest instead of EvalPath.
	Test bool `json:"test,omitempty"`
	// Decoy: a second interpreter with other streams, arguments and
	// environment is created and loaded with the standard library after the
	// one which runs the job, and evaluates a small program on its own
	// streams first (interpreters of one process must not share anything).
	Decoy bool `json:"decoy,omitempty"`
}

// DefaultBudget is the default operation budget of a job.
const DefaultBudget = 30_000_000

// AfterResult is the outcome of one follow-up evaluation.
type AfterResult struct {
	Err   string `json:"err,omitempty"`
	Value string `json:"value,omitempty"`
}

// Outcome classes.
const (
	OK       = "ok"
	Panic    = "panic"    // uncaught script panic returned as interp.Panic
	Compile  = "compile"  // error before anything ran (Compile failed)
	Error    = "error"    // other non-panic error from EvalPath
	Diverged = "diverged" // operation budget exhausted
	Deadlock = "deadlock" // no interpreted operation for a long time
	Crash    = "crash"    // worker died
	Escaped  = "escaped"  // a Go panic escaped Eval
	Timeout  = "timeout"  // harness wall-clock backstop (inconclusive)
)

// Outcome is the result of a job.
type Outcome struct {
	ID         int           `json:"id"`
	Class      string        `json:"class"`
	Stdout     string        `json:"stdout"`
	Stderr     string        `json:"stderr"`
	Err        string        `json:"err,omitempty"`
	PanicValue string        `json:"panic_value,omitempty"`
	PanicType  string        `json:"panic_type,omitempty"`
	Ops        uint64        `json:"ops"`
	After      []AfterResult `json:"after,omitempty"`
	RealOut    string        `json:"real_out,omitempty"`
	RealErr    string        `json:"real_err,omitempty"`
}

// wire is the transport form of Outcome: strings that may hold arbitrary
// bytes travel as base64 ([]byte), because encoding/json replaces invalid
// UTF-8 in strings.
type wire struct {
	ID                                                int
	Class, PanicType                                  string
	Stdout, Stderr, Err, PanicValue, RealOut, RealErr []byte
	Ops                                               uint64
	After                                             []AfterResult
}

// MarshalJSON implements json.Marshaler.
func (o Outcome) MarshalJSON() ([]byte, error) {
	return json.Marshal(wire{o.ID, o.Class, o.PanicType, []byte(o.Stdout), []byte(o.Stderr), []byte(o.Err), []byte(o.PanicValue), []byte(o.RealOut), []byte(o.RealErr), o.Ops, o.After})
}

// UnmarshalJSON implements json.Unmarshaler.
func (o *Outcome) UnmarshalJSON(b []byte) error {
	var w wire
	if err := json.Unmarshal(b, &w); err != nil {
		return err
	}
	*o = Outcome{ID: w.ID, Class: w.Class, PanicType: w.PanicType, Stdout: string(w.Stdout), Stderr: string(w.Stderr), Err: string(w.Err),
		PanicValue: string(w.PanicValue), RealOut: string(w.RealOut), RealErr: string(w.RealErr), Ops: w.Ops, After: w.After}
	return nil
}

type syncBuf struct {
	mu  sync.Mutex
	b   bytes.Buffer
	max int
}

func (s *syncBuf) Write(p []byte) (int, error) {
	s.mu.Lock()
	defer s.mu.Unlock()
	if s.b.Len() < s.max {
		s.b.Write(p)
	}
	return len(p), nil
}

func (s *syncBuf) String() string {
	s.mu.Lock()
	defer s.mu.Unlock()
	return s.b.String()
}

// NewInterp builds an interpreter for a job with the default symbols.
func NewInterp(j *Job, stdout, stderr io.Writer) *interp.Interpreter {
	opt := interp.Options{
		GoPath:       j.GoPath,
		BuildTags:    j.Tags,
		Stdin:        strings.NewReader(j.Stdin),
		Stdout:       stdout,
		Stderr:       stderr,
		Args:         j.Args,
		Env:          j.Env,
		Unrestricted: j.Unrestricted,
	}
	if opt.Args == nil {
		opt.Args = []string{"prog"}
	}
	if j.NoArgs {
		opt.Args = []string{}
	}
	if j.Files != nil {
		m := fstest.MapFS{}
		for k, v := range j.Files {
			m[k] = &fstest.MapFile{Data: []byte(v)}
		}
		opt.SourcecodeFilesystem = m
	}
	i := interp.New(opt)
	if err := i.Use(stdlib.Symbols); err != nil {
		panic(err)
	}
	if j.GOOS != "" || j.GOARCH != "" || j.Release != nil {
		i.VerifSetBuildContext(j.GOOS, j.GOARCH, j.Release)
	}
	if j.Decoy {
		dout := &syncBuf{max: 1 << 16}
		d := interp.New(interp.Options{Stdout: dout, Stderr: dout, Stdin: strings.NewReader("decoy-stdin\n"), Args: []string{"decoy", "-x"}, Env: []string{"DECOY=1", "VERIF_SENTINEL=decoy"}, Unrestricted: j.Unrestricted})
		if err := d.Use(stdlib.Symbols); err != nil {
			panic(err)
		}
		_, _ = d.Eval("package main\n\nimport (\n\t\"fmt\"\n\t\"os\"\n)\n\nfunc main() {\n\tfmt.Println(\"decoy\", os.Args, os.Getenv(\"DECOY\"))\n\tos.Setenv(\"DECOY2\", \"2\")\n}\n")
	}
	return i
}

// Execute runs a job in this process. onStall, if not nil, is called when no
// interpreted operation has been executed for stall (the job is then
// abandoned and its goroutine leaks, so workers exit afterwards).
func Execute(j *Job, stall time.Duration) (out Outcome, poisoned bool) {
	out.ID = j.ID
	so := &syncBuf{max: 8 << 20}
	se := &syncBuf{max: 1 << 20}
	i := NewInterp(j, so, se)
	budget := j.OpBudget
	if budget == 0 {
		budget = DefaultBudget
	}
	ctx, cancel := context.WithCancel(context.Background())
	defer cancel()
	var over atomic.Bool
	i.VerifSetStepHook(func() {
		if i.VerifOps() > budget && !over.Load() {
			over.Store(true)
			cancel()
		}
	})

	type res struct {
		err     error
		escaped any
	}
	done := make(chan res, 1)
	go func() {
		var r res
		defer func() {
			if p := recover(); p != nil {
				r.escaped = p
			}
			done <- r
		}()
		switch {
		case j.Path != "" && j.Test:
			r.err = i.EvalTest(j.Path)
		case j.Path != "":
			if j.BeforePath != "" {
				if _, r.err = i.EvalPathWithContext(ctx, j.BeforePath); r.err != nil {
					return
				}
			}
			_, r.err = i.EvalPathWithContext(ctx, j.Path)
		default:
			name := j.Name
			if name == "" {
				name = "main.go"
			}
			_ = name
			prog, err := i.Compile(j.Src)
			if err != nil {
				r.err = compileErr{err}
				return
			}
			_, r.err = i.ExecuteWithContext(ctx, prog)
		}
	}()

	var r res
	tick := time.NewTicker(200 * time.Millisecond)
	defer tick.Stop()
	last, clock := uint64(0), NewStallClock()
wait:
	for {
		select {
		case r = <-done:
			break wait
		case <-tick.C:
			if n := i.VerifOps(); n != last {
				last = n
				clock.Reset()
			} else if idle := clock.Idle(); stall > 0 && idle > stall {
				out.Class = Deadlock
				out.Stdout, out.Stderr, out.Ops = so.String(), se.String(), n
				out.Err = fmt.Sprintf("no interpreted operation for %v", stall)
				return out, true
			}
		}
	}
	out.Stdout, out.Stderr, out.Ops = so.String(), se.String(), i.VerifOps()
	var ip interp.Panic
	var ce compileErr
	switch {
	case r.escaped != nil:
		out.Class = Escaped
		out.Err = fmt.Sprint(r.escaped)
	case r.err == nil:
		out.Class = OK
	case errors.As(r.err, &ce):
		out.Class = Compile
		out.Err = r.err.Error()
	case errors.As(r.err, &ip):
		out.Class = Panic
		out.Err = r.err.Error()
		out.PanicValue = fmt.Sprintf("%v", ip.Value)
		if e, ok := ip.Value.(error); ok {
			out.PanicValue = e.Error()
		}
		out.PanicType = panicKind(ip.Value)
	case errors.Is(r.err, context.Canceled) && over.Load():
		out.Class = Diverged
		out.Err = "operation budget exhausted"
		return out, true
	default:
		out.Class = Error
		out.Err = r.err.Error()
	}
	for _, src := range j.After {
		var ar AfterResult
		func() {
			defer func() {
				if p := recover(); p != nil {
					ar.Err = fmt.Sprintf("escaped: %v", p)
				}
			}()
			v, err := i.Eval(src)
			if err != nil {
				ar.Err = err.Error()
			} else if v.IsValid() && v.CanInterface() {
				ar.Value = fmt.Sprintf("%v", v.Interface())
			}
		}()
		out.After = append(out.After, ar)
	}
	out.Stdout = so.String()
	return out, false
}

// panicKind classifies a panic value: "runtime" for run-time errors raised by
// the Go runtime or reflect on behalf of the script, otherwise the dynamic
// kind of the value.
func panicKind(v any) string {
	if v == nil {
		return "nil"
	}
	if _, ok := v.(interface{ RuntimeError() }); ok {
		return "runtime"
	}
	if e, ok := v.(error); ok {
		_ = e
		return "error"
	}
	return reflect.TypeOf(v).Kind().String()
}

type compileErr struct{ error }

func (c compileErr) Unwrap() error { return c.error }

// ---------------------------------------------------------------------------
// worker process

// WorkerMain is the entry point of `vcheck worker`: JSON jobs on fd 3,
// outcomes on fd 4. fd 1 and 2 are regular files owned by the parent.
func WorkerMain(args []string) {
	in := os.NewFile(3, "jobs")
	outf := os.NewFile(4, "outcomes")
	rd := bufio.NewReaderSize(in, 1<<20)
	enc := json.NewEncoder(outf)
	for {
		line, err := rd.ReadBytes('\n')
		if len(line) > 0 {
			var j Job
			if json.Unmarshal(line, &j) != nil {
				os.Exit(3)
			}
			o0, e0 := fileSize(os.Stdout), fileSize(os.Stderr)
			out, poisoned := Execute(&j, 20*time.Second)
			out.RealOut = readFrom(os.Stdout, o0)
			out.RealErr = readFrom(os.Stderr, e0)
			if enc.Encode(&out) != nil {
				os.Exit(3)
			}
			if poisoned {
				os.Exit(0)
			}
		}
		if err != nil {
			os.Exit(0)
		}
	}
}

func fileSize(f *os.File) int64 {
	st, err := f.Stat()
	if err != nil || !st.Mode().IsRegular() {
		return -1
	}
	return st.Size()
}

func readFrom(f *os.File, off int64) string {
	if off < 0 {
		return ""
	}
	st, err := f.Stat()
	if err != nil || st.Size() <= off {
		return ""
	}
	n := st.Size() - off
	if n > 1<<16 {
		n = 1 << 16
	}
	b := make([]byte, n)
	g, err := os.Open(f.Name())
	if err != nil {
		// fall back to the descriptor itself
		m, _ := f.ReadAt(b, off)
		return string(b[:m])
	}
	defer g.Close()
	m, _ := g.ReadAt(b, off)
	return string(b[:m])
}

// Pool is a set of worker subprocesses.
type Pool struct {
	dir  string
	free chan *worker
	n    int
	env  []string
	mu   sync.Mutex
	all  []*worker
	// Restarts counts workers restarted after a crash, divergence or deadlock.
	Restarts int
}

type worker struct {
	cmd  *exec.Cmd
	in   *os.File
	rd   *bufio.Reader
	outf *os.File
	so   *os.File
	se   *os.File
}

// NewPool starts n workers; dir is a scratch directory for their real
// stdout/stderr files. extraEnv is added to their environment.
func NewPool(n int, dir string, extraEnv ...string) *Pool {
	p := &Pool{dir: dir, free: make(chan *worker, n), n: n, env: extraEnv}
	_ = os.MkdirAll(dir, 0o755)
	for i := 0; i < n; i++ {
		p.free <- nil // started lazily
	}
	return p
}

var workerSeq struct {
	sync.Mutex
	n int
}

func (p *Pool) start() (*worker, error) {
	self, err := os.Executable()
	if err != nil {
		return nil, err
	}
	workerSeq.Lock()
	workerSeq.n++
	seq := workerSeq.n
	workerSeq.Unlock()
	jr, jw, err := os.Pipe()
	if err != nil {
		return nil, err
	}
	or, ow, err := os.Pipe()
	if err != nil {
		return nil, err
	}
	so, err := os.Create(filepath.Join(p.dir, fmt.Sprintf("w%d.out", seq)))
	if err != nil {
		return nil, err
	}
	se, err := os.Create(filepath.Join(p.dir, fmt.Sprintf("w%d.err", seq)))
	if err != nil {
		return nil, err
	}
	cmd := exec.Command(self, "worker")
	cmd.ExtraFiles = []*os.File{jr, ow}
	cmd.Stdout = so
	cmd.Stderr = se
	cmd.Env = append(os.Environ(), p.env...)
	cmd.SysProcAttr = &syscall.SysProcAttr{Setpgid: true, Pdeathsig: syscall.SIGKILL}
	if err := cmd.Start(); err != nil {
		return nil, err
	}
	jr.Close()
	ow.Close()
	w := &worker{cmd: cmd, in: jw, rd: bufio.NewReaderSize(or, 1<<20), outf: or, so: so, se: se}
	p.mu.Lock()
	p.all = append(p.all, w)
	p.mu.Unlock()
	return w, nil
}

func (w *worker) kill() {
	if w == nil {
		return
	}
	if w.cmd.Process != nil {
		_ = syscall.Kill(-w.cmd.Process.Pid, syscall.SIGKILL)
	}
	w.in.Close()
	w.outf.Close()
	_, _ = w.cmd.Process.Wait()
	name1, name2 := w.so.Name(), w.se.Name()
	w.so.Close()
	w.se.Close()
	os.Remove(name1)
	os.Remove(name2)
}

// Close kills all workers.
func (p *Pool) Close() {
	p.mu.Lock()
	all := p.all
	p.all = nil
	p.mu.Unlock()
	for _, w := range all {
		w.kill()
	}
}

// Run executes a job on a free worker (blocking). backstop is the wall-clock
// limit after which the worker is killed and the outcome is Timeout
// (inconclusive, never a verdict).
func (p *Pool) Run(j *Job, backstop time.Duration) Outcome {
	w := <-p.free
	var err error
	if w == nil {
		if w, err = p.start(); err != nil {
			p.free <- nil
			return Outcome{ID: j.ID, Class: Crash, Err: "cannot start worker: " + err.Error()}
		}
	}
	b, _ := json.Marshal(j)
	b = append(b, '\n')
	type rr struct {
		out Outcome
		err error
	}
	ch := make(chan rr, 1)
	go func() {
		if _, err := w.in.Write(b); err != nil {
			ch <- rr{err: err}
			return
		}
		line, err := w.rd.ReadBytes('\n')
		if err != nil {
			ch <- rr{err: err}
			return
		}
		var o Outcome
		if err := json.Unmarshal(line, &o); err != nil {
			ch <- rr{err: err}
			return
		}
		ch <- rr{out: o}
	}()
	if backstop <= 0 {
		backstop = 5 * time.Minute
	}
	select {
	case r := <-ch:
		if r.err != nil {
			// worker died: collect what it wrote to its real stderr
			msg := tailFile(w.se.Name(), 2000)
			w.kill()
			p.mu.Lock()
			p.Restarts++
			p.mu.Unlock()
			p.free <- nil
			return Outcome{ID: j.ID, Class: Crash, Err: fmt.Sprintf("worker died: %v; stderr: %s", r.err, msg)}
		}
		if r.out.Class == Diverged || r.out.Class == Deadlock {
			w.kill()
			p.mu.Lock()
			p.Restarts++
			p.mu.Unlock()
			p.free <- nil
		} else {
			p.free <- w
		}
		return r.out
	case <-time.After(backstop):
		w.kill()
		p.mu.Lock()
		p.Restarts++
		p.mu.Unlock()
		p.free <- nil
		return Outcome{ID: j.ID, Class: Timeout, Err: "wall-clock backstop"}
	}
}

func tailFile(name string, n int) string {
	b, err := os.ReadFile(name)
	if err != nil {
		return ""
	}
	if len(b) > n {
		b = b[len(b)-n:]
	}
	return string(b)
}
