package yrun

import (
	"os"
	"strconv"
	"strings"
	"time"
)

// StallClock measures for how long nothing moved, without counting the time
// this process spent runnable but waiting for a CPU (the run-queue delay of
// its threads, /proc/self/task/*/schedstat): on a saturated machine a
// compilation can be starved for tens of seconds, which is not a deadlock. A
// blocked interpreter has no runnable thread and accumulates no such delay.
type StallClock struct {
	since   time.Time
	excused time.Duration
	delay   time.Duration
}

// NewStallClock starts a clock.
func NewStallClock() *StallClock {
	return &StallClock{since: time.Now(), delay: runDelay()}
}

// Reset records progress.
func (s *StallClock) Reset() {
	s.since, s.excused, s.delay = time.Now(), 0, runDelay()
}

// Idle returns the time since the last progress, minus the starvation
// observed between the calls of Idle (call it a few times per second).
func (s *StallClock) Idle() time.Duration {
	d := runDelay()
	if inc := d - s.delay; inc > 0 {
		s.excused += inc
	}
	s.delay = d
	el := time.Since(s.since)
	if s.excused > el {
		s.excused = el
	}
	return el - s.excused
}

// runDelay sums the run-queue delay of the threads of the process.
func runDelay() time.Duration {
	ents, err := os.ReadDir("/proc/self/task")
	if err != nil {
		return 0
	}
	var total int64
	for _, e := range ents {
		b, err := os.ReadFile("/proc/self/task/" + e.Name() + "/schedstat")
		if err != nil {
			continue
		}
		f := strings.Fields(string(b))
		if len(f) >= 2 {
			if v, err := strconv.ParseInt(f[1], 10, 64); err == nil {
				total += v
			}
		}
	}
	return time.Duration(total)
}
