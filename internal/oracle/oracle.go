// Package oracle builds and runs generated programs with the installed Go
// toolchain: the reference side of every differential check.
package oracle

import (
	"bytes"
	"context"
	"crypto/sha256"
	"fmt"
	"os"
	"os/exec"
	"path/filepath"
	"regexp"
	"sort"
	"strings"
	"sync"
	"syscall"
	"time"
)

// Result is the behaviour of the natively compiled program.
type Result struct {
	Built    bool   `json:"built"`
	BuildErr string `json:"build_err,omitempty"`
	Stdout   string `json:"stdout"`
	Stderr   string `json:"stderr,omitempty"`
	Exit     int    `json:"exit"`
	// Panicked: the program ended with an uncaught panic (exit status 2 and
	// a "panic: " line on stderr); PanicLine is that line without prefix.
	Panicked  bool   `json:"panicked"`
	PanicLine string `json:"panic_line,omitempty"`
	// RuntimeErr: the panic value is a runtime.Error.
	RuntimeErr bool `json:"runtime_err,omitempty"`
	Fatal      bool `json:"fatal,omitempty"` // "fatal error:" (deadlock …)
	TimedOut   bool `json:"timed_out,omitempty"`
}

// Tree is a program: file path (relative to the program root) → content.
// The root holds package main. Sub-packages are imported as
// "oracle/<ID>/<subdir>"; the placeholder PKGROOT in sources is replaced by
// "oracle/<ID>".
type Tree map[string]string

// Single wraps a one-file program.
func Single(src string) Tree { return Tree{"main.go": src} }

// ID is the content hash naming the program directory.
func (t Tree) ID() string {
	var keys []string
	for k := range t {
		keys = append(keys, k)
	}
	sort.Strings(keys)
	h := sha256.New()
	for _, k := range keys {
		fmt.Fprintf(h, "%s\x00%s\x00", k, t[k])
	}
	return fmt.Sprintf("p%x", h.Sum(nil)[:8])
}

// Batch is a GOPATH-shaped scratch tree holding many programs that are built
// with one `go build ./...`.
type Batch struct {
	Root    string // $T: contains gp/src/oracle and bin
	mu      sync.Mutex
	trees   map[string]Tree
	results map[string]*Result
	pending []string
}

// GoPath is the GOPATH to give the interpreter so that it sees the same files.
func (b *Batch) GoPath() string { return filepath.Join(b.Root, "gp") }

// ModDir is the module directory.
func (b *Batch) ModDir() string { return filepath.Join(b.Root, "gp", "src", "oracle") }

// ProgDir is the directory of a program.
func (b *Batch) ProgDir(id string) string { return filepath.Join(b.ModDir(), id) }

// MainPath is the path of main.go of a program.
func (b *Batch) MainPath(id string) string { return filepath.Join(b.ProgDir(id), "main.go") }

// NewBatch creates the tree under root.
func NewBatch(root string) (*Batch, error) {
	b := &Batch{Root: root, trees: map[string]Tree{}, results: map[string]*Result{}}
	if err := os.MkdirAll(b.ModDir(), 0o755); err != nil {
		return nil, err
	}
	if err := os.MkdirAll(filepath.Join(root, "bin"), 0o755); err != nil {
		return nil, err
	}
	if err := os.WriteFile(filepath.Join(b.ModDir(), "go.mod"), []byte("module oracle\n\ngo 1.22\n"), 0o644); err != nil {
		return nil, err
	}
	return b, nil
}

// Add registers a program (idempotent) and writes its files.
func (b *Batch) Add(t Tree) string {
	id := t.ID()
	b.mu.Lock()
	defer b.mu.Unlock()
	if _, ok := b.trees[id]; ok {
		return id
	}
	b.trees[id] = t
	b.pending = append(b.pending, id)
	for name, src := range t {
		p := filepath.Join(b.ProgDir(id), name)
		_ = os.MkdirAll(filepath.Dir(p), 0o755)
		_ = os.WriteFile(p, []byte(strings.ReplaceAll(src, "PKGROOT", "oracle/"+id)), 0o644)
	}
	return id
}

// Source returns the main.go text as written to disk.
func (b *Batch) Source(id string) string {
	s, _ := os.ReadFile(b.MainPath(id))
	return string(s)
}

func goEnv() []string {
	env := os.Environ()
	env = append(env, "GOFLAGS=-mod=mod", "GOPROXY=off", "GOSUMDB=off", "GOTOOLCHAIN=local", "GO111MODULE=on", "CGO_ENABLED=0")
	return env
}

var errLine = regexp.MustCompile(`(?m)^(?:\./)?(p[0-9a-f]{16})/`)

// Build compiles all pending programs (up to three rounds: programs that do
// not compile are marked and taken out so that the others get built).
func (b *Batch) Build() error {
	b.mu.Lock()
	pending := b.pending
	b.pending = nil
	b.mu.Unlock()
	if len(pending) == 0 {
		return nil
	}
	bad := map[string]string{}
	for round := 0; round < 4; round++ {
		var pkgs []string
		for _, id := range pending {
			if _, isBad := bad[id]; !isBad {
				pkgs = append(pkgs, "./"+id)
			}
		}
		if len(pkgs) == 0 {
			break
		}
		var out []byte
		var err error
		// chunk the command line
		failed := false
		for i := 0; i < len(pkgs); i += 400 {
			j := i + 400
			if j > len(pkgs) {
				j = len(pkgs)
			}
			args := append([]string{"build", "-ldflags=-s -w", "-o", filepath.Join(b.Root, "bin") + "/"}, pkgs[i:j]...)
			cmd := exec.Command("go", args...)
			cmd.Dir = b.ModDir()
			cmd.Env = goEnv()
			var o []byte
			o, err = cmd.CombinedOutput()
			if err != nil {
				failed = true
				out = append(out, o...)
			}
		}
		if !failed {
			break
		}
		found := false
		for _, m := range errLine.FindAllStringSubmatch(string(out), -1) {
			if _, ok := bad[m[1]]; !ok {
				bad[m[1]] = firstLines(string(out), m[1], 6)
				found = true
			}
		}
		if !found {
			return fmt.Errorf("go build failed: %s", truncate(string(out), 2000))
		}
	}
	b.mu.Lock()
	for id, msg := range bad {
		b.results[id] = &Result{Built: false, BuildErr: msg}
	}
	b.mu.Unlock()
	// run all built programs in parallel
	var wg sync.WaitGroup
	sem := make(chan struct{}, 8)
	for _, id := range pending {
		if _, isBad := bad[id]; isBad {
			continue
		}
		wg.Add(1)
		sem <- struct{}{}
		go func(id string) {
			defer wg.Done()
			defer func() { <-sem }()
			bin := filepath.Join(b.Root, "bin", id)
			r := runBinary(bin, 20*time.Second)
			os.Remove(bin)
			b.mu.Lock()
			b.results[id] = r
			b.mu.Unlock()
		}(id)
	}
	wg.Wait()
	return nil
}

func firstLines(out, id string, n int) string {
	var sel []string
	for _, l := range strings.Split(out, "\n") {
		if strings.Contains(l, id) {
			sel = append(sel, l)
			if len(sel) >= n {
				break
			}
		}
	}
	return strings.Join(sel, "\n")
}

func truncate(s string, n int) string {
	if len(s) > n {
		return s[:n] + "…"
	}
	return s
}

// Result returns the native behaviour of a built program, or nil.
func (b *Batch) Result(id string) *Result {
	b.mu.Lock()
	defer b.mu.Unlock()
	return b.results[id]
}

// Ensure returns the result of a program, building it on the fly when it is
// not in the batch yet (used while shrinking).
func (b *Batch) Ensure(t Tree) (string, *Result) {
	id := t.ID()
	if r := b.Result(id); r != nil {
		return id, r
	}
	b.Add(t)
	if err := b.Build(); err != nil {
		return id, &Result{Built: false, BuildErr: err.Error()}
	}
	return id, b.Result(id)
}

// Forget removes a program's files (keeps its result).
func (b *Batch) Forget(id string) {
	os.RemoveAll(b.ProgDir(id))
}

var panicRe = regexp.MustCompile(`(?m)^panic: (.*)$`)

func runBinary(bin string, limit time.Duration) *Result {
	ctx, cancel := context.WithTimeout(context.Background(), limit)
	defer cancel()
	cmd := exec.CommandContext(ctx, bin)
	cmd.SysProcAttr = &syscall.SysProcAttr{Setpgid: true, Pdeathsig: syscall.SIGKILL}
	cmd.Env = []string{"GOTRACEBACK=single", "GOMAXPROCS=2"}
	var so, se bytes.Buffer
	cmd.Stdout = &limitW{b: &so, max: 8 << 20}
	cmd.Stderr = &limitW{b: &se, max: 1 << 20}
	err := cmd.Run()
	r := &Result{Built: true, Stdout: so.String(), Stderr: truncate(se.String(), 4000)}
	if ctx.Err() != nil {
		r.TimedOut = true
		return r
	}
	if err != nil {
		if ee, ok := err.(*exec.ExitError); ok {
			r.Exit = ee.ExitCode()
		} else {
			r.Exit = -1
		}
	}
	if r.Exit == 2 {
		stderr := se.String()
		if m := panicRe.FindStringSubmatch(stderr); m != nil {
			r.Panicked = true
			r.PanicLine = m[1]
			// the first panic line of a re-panic chain is the original one
			if strings.HasPrefix(m[1], "runtime error:") || strings.Contains(m[1], "interface conversion:") ||
				strings.HasPrefix(m[1], "assignment to entry in nil map") || strings.HasPrefix(m[1], "close of ") ||
				strings.HasPrefix(m[1], "send on closed channel") {
				r.RuntimeErr = true
			}
			if strings.Contains(stderr, "[signal SIGSEGV") {
				r.RuntimeErr = true
			}
		} else if strings.Contains(stderr, "fatal error:") {
			r.Fatal = true
		}
	}
	return r
}

type limitW struct {
	b   *bytes.Buffer
	max int
}

func (l *limitW) Write(p []byte) (int, error) {
	if l.b.Len() < l.max {
		l.b.Write(p)
	}
	return len(p), nil
}
