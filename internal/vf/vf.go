// Package vf is the shared runtime of the verification checks: shard
// configuration, a rapid runner that captures failures instead of failing a
// *testing.T, counters for the evidence file, the known-findings file and the
// replay-file format.
package vf

import (
	"crypto/sha256"
	"encoding/binary"
	"encoding/json"
	"flag"
	"fmt"
	"os"
	"path/filepath"
	"sort"
	"strings"
	"sync"
	"testing"
	"time"

	"pgregory.net/rapid"
)

// Root is the /verif directory (the working directory of every command).
var Root = func() string {
	if r := os.Getenv("VERIF_ROOT"); r != "" {
		return r
	}
	return "/verif"
}()

// Check describes one property check. Run is executed once per shard in a
// subprocess; Replay re-executes one stored case (JSON) and returns a
// non-empty message when the property is violated on it.
type Check struct {
	ID          string
	Level       string // evidence level
	Rule        string
	Assumptions []string
	// Cases and Shards per tier ("quick", "thorough").
	Cases  map[string]int
	Shards map[string]int
	// Race requests the -race build of the check binary.
	Race bool
	// Run explores. It reports through ctx.
	Run func(ctx *Ctx)
	// Replay runs the case stored in data (the "case" member of a replay
	// file). It returns "" when the property holds on it, otherwise the
	// failure message, plus the failure signature.
	Replay func(ctx *Ctx, data json.RawMessage) (msg, sig string)
	// Exhaustive marks checks that enumerate a finite space completely.
	Exhaustive bool
}

var registry = map[string]*Check{}

// Register adds a check to the binary.
func Register(c *Check) { registry[c.ID] = c }

// Lookup returns a registered check.
func Lookup(id string) *Check { return registry[id] }

// IDs lists registered checks.
func IDs() []string {
	var ids []string
	for k := range registry {
		ids = append(ids, k)
	}
	sort.Strings(ids)
	return ids
}

// Violation is one failing case.
type Violation struct {
	Sig    string `json:"sig"`    // failure signature (root-cause class)
	Msg    string `json:"msg"`    // what failed
	Replay string `json:"replay"` // path of the replay file
	Known  string `json:"known,omitempty"`
}

// ShardResult is what a shard process hands back to the driver.
type ShardResult struct {
	Shard        int            `json:"shard"`
	Requested    int            `json:"requested"`
	Completed    int            `json:"completed"`
	Evaluations  int            `json:"evaluations"`
	Nontrivial   []uint64       `json:"nontrivial"` // hashes of distinct non-trivial cases
	Classes      map[string]int `json:"classes"`
	Excluded     map[string]int `json:"excluded"`
	Samples      []any          `json:"samples"`
	Violations   []Violation    `json:"violations"`
	Inconclusive []string       `json:"inconclusive"`
	Notes        []string       `json:"notes"`
	Extra        map[string]any `json:"extra,omitempty"`
}

// Ctx is the per-shard context handed to Check.Run.
type Ctx struct {
	Check   *Check
	Tier    string
	Seed    int64 // VERIF_SEED
	Shard   int
	NShards int
	Cases   int    // cases this shard should explore
	Scratch string // private scratch directory (removed by the driver)
	Survey  bool   // development: record failures, do not stop

	mu  sync.Mutex
	res ShardResult
	nt  map[uint64]bool
	// current case for the rapid runner
	lastFail *failure
	surveyN  int
	knownHit map[string]bool
}

type failure struct {
	Case any
	Msg  string
	Sig  string
}

// NewCtx builds a context (used by the driver's shard mode and by replay).
func NewCtx(c *Check, tier string, seed int64, shard, nshards, cases int, scratch string) *Ctx {
	ctx := &Ctx{Check: c, Tier: tier, Seed: seed, Shard: shard, NShards: nshards, Cases: cases, Scratch: scratch}
	ctx.res.Shard = shard
	ctx.res.Requested = cases
	ctx.res.Classes = map[string]int{}
	ctx.res.Excluded = map[string]int{}
	ctx.nt = map[uint64]bool{}
	ctx.Survey = os.Getenv("VERIF_SURVEY") != ""
	return ctx
}

// Result finalises and returns the shard result.
func (c *Ctx) Result() *ShardResult {
	c.mu.Lock()
	defer c.mu.Unlock()
	c.res.Nontrivial = c.res.Nontrivial[:0]
	for h := range c.nt {
		c.res.Nontrivial = append(c.res.Nontrivial, h)
	}
	sort.Slice(c.res.Nontrivial, func(i, j int) bool { return c.res.Nontrivial[i] < c.res.Nontrivial[j] })
	return &c.res
}

// RapidSeed is the rapid PRNG seed for this shard and pass name. It is never
// zero and shards are far apart (rapid derives per-case seeds as seed+Σi).
func (c *Ctx) RapidSeed(salt int) uint64 {
	return uint64(1 + c.Seed*1_000_003 + int64(c.Shard)*7_919_000 + int64(salt)*104_729_000_000)
}

// Eval counts one evaluated case.
func (c *Ctx) Eval() { c.mu.Lock(); c.res.Evaluations++; c.mu.Unlock() }

// EvalN counts n evaluated cases.
func (c *Ctx) EvalN(n int) { c.mu.Lock(); c.res.Evaluations += n; c.mu.Unlock() }

// Done counts one completed top-level case (compared with Requested).
func (c *Ctx) Done() { c.mu.Lock(); c.res.Completed++; c.mu.Unlock() }

// DoneN counts n completed cases.
func (c *Ctx) DoneN(n int) { c.mu.Lock(); c.res.Completed += n; c.mu.Unlock() }

// Class increments a class counter of the generator-distribution histogram.
func (c *Ctx) Class(name string) { c.mu.Lock(); c.res.Classes[name]++; c.mu.Unlock() }

// ClassN adds n to a class counter.
func (c *Ctx) ClassN(name string, n int) { c.mu.Lock(); c.res.Classes[name] += n; c.mu.Unlock() }

// Excluded counts a case (or construct) left out by construction because of a
// recorded known finding.
func (c *Ctx) Excluded(name string) { c.mu.Lock(); c.res.Excluded[name]++; c.mu.Unlock() }

// Nontrivial records a distinct non-trivial case by its content key.
func (c *Ctx) Nontrivial(key string) {
	h := sha256.Sum256([]byte(key))
	c.mu.Lock()
	c.nt[binary.LittleEndian.Uint64(h[:8])] = true
	c.mu.Unlock()
}

// Sample keeps up to max samples of explored cases for the evidence file.
func (c *Ctx) Sample(v any, max int) {
	c.mu.Lock()
	if len(c.res.Samples) < max {
		c.res.Samples = append(c.res.Samples, v)
	}
	c.mu.Unlock()
}

// Note adds a free-text note to the evidence.
func (c *Ctx) Note(format string, args ...any) {
	c.mu.Lock()
	c.res.Notes = append(c.res.Notes, fmt.Sprintf(format, args...))
	c.mu.Unlock()
}

// SetExtra stores an extra coverage key.
func (c *Ctx) SetExtra(k string, v any) {
	c.mu.Lock()
	if c.res.Extra == nil {
		c.res.Extra = map[string]any{}
	}
	c.res.Extra[k] = v
	c.mu.Unlock()
}

// Inconclusive records harness trouble (exit 2, never a violation).
func (c *Ctx) Inconclusive(format string, args ...any) {
	c.mu.Lock()
	c.res.Inconclusive = append(c.res.Inconclusive, fmt.Sprintf(format, args...))
	c.mu.Unlock()
}

// ReplayFile is the on-disk format of a counterexample.
type ReplayFile struct {
	Property string          `json:"property"`
	Sig      string          `json:"sig"`
	Msg      string          `json:"msg"`
	Seed     int64           `json:"seed"`
	Tier     string          `json:"tier"`
	Case     json.RawMessage `json:"case"`
}

// ReportViolation writes a replay file for the case and records the violation.
// If the signature is listed as a known finding it is recorded as such.
func (c *Ctx) ReportViolation(sig, msg string, cas any) {
	raw, err := json.MarshalIndent(cas, "", " ")
	if err != nil {
		raw = []byte(fmt.Sprintf("%q", fmt.Sprint(cas)))
	}
	rf := ReplayFile{Property: c.Check.ID, Sig: sig, Msg: msg, Seed: c.Seed, Tier: c.Tier, Case: raw}
	dir := filepath.Join(Root, "replays", "found", c.Check.ID)
	_ = os.MkdirAll(dir, 0o755)
	h := sha256.Sum256(raw)
	path := filepath.Join(dir, fmt.Sprintf("%s-%x.json", sanitize(sig), h[:6]))
	b, _ := json.MarshalIndent(rf, "", " ")
	_ = os.WriteFile(path, b, 0o644)
	v := Violation{Sig: sig, Msg: msg, Replay: path}
	if k := KnownFor(c.Check.ID, sig); k != nil {
		v.Known = k.What
	}
	c.mu.Lock()
	c.res.Violations = append(c.res.Violations, v)
	c.mu.Unlock()
}

func sanitize(s string) string {
	var b strings.Builder
	for _, r := range s {
		switch {
		case r >= 'a' && r <= 'z', r >= 'A' && r <= 'Z', r >= '0' && r <= '9', r == '-', r == '_', r == '.':
			b.WriteRune(r)
		default:
			b.WriteByte('_')
		}
	}
	if b.Len() == 0 {
		return "case"
	}
	if b.Len() > 60 {
		return b.String()[:60]
	}
	return b.String()
}

// ---------------------------------------------------------------------------
// rapid runner

type capTB struct {
	name   string
	failed bool
	logs   []string
	mu     sync.Mutex
}

func (t *capTB) Helper()      {}
func (t *capTB) Name() string { return t.name }
func (t *capTB) Logf(f string, a ...any) {
	t.mu.Lock()
	if len(t.logs) < 200 {
		t.logs = append(t.logs, fmt.Sprintf(f, a...))
	}
	t.mu.Unlock()
}
func (t *capTB) Log(a ...any)              { t.Logf("%s", fmt.Sprint(a...)) }
func (t *capTB) Skipf(f string, a ...any)  { panic("skip outside rapid") }
func (t *capTB) Skip(a ...any)             { panic("skip outside rapid") }
func (t *capTB) SkipNow()                  { panic("skip outside rapid") }
func (t *capTB) Errorf(f string, a ...any) { t.Logf(f, a...); t.failed = true }
func (t *capTB) Error(a ...any)            { t.Log(a...); t.failed = true }
func (t *capTB) Fatalf(f string, a ...any) { t.Logf(f, a...); t.failed = true }
func (t *capTB) Fatal(a ...any)            { t.Log(a...); t.failed = true }
func (t *capTB) FailNow()                  { t.failed = true }
func (t *capTB) Fail()                     { t.failed = true }
func (t *capTB) Failed() bool              { return t.failed }

var initOnce sync.Once

// InitFlags prepares the testing and rapid flags of a non-test binary.
func InitFlags() {
	initOnce.Do(func() {
		testing.Init()
		_ = flag.CommandLine.Parse(nil)
		_ = flag.Set("rapid.nofailfile", "true")
	})
}

// CaseFail is called by a property when the drawn case violates the property:
// it remembers the case (the last remembered one is the shrunk one, because
// rapid re-runs the minimal case last) and fails the rapid test.
func (c *Ctx) CaseFail(t *rapid.T, sig, msg string, cas any) {
	if c.Survey {
		c.mu.Lock()
		c.surveyN++
		n := c.surveyN
		c.mu.Unlock()
		c.Class("survey-fail:" + sig)
		if n <= 400 {
			dir := filepath.Join(Root, "scratch", "survey", c.Check.ID)
			_ = os.MkdirAll(dir, 0o755)
			raw, _ := json.MarshalIndent(cas, "", " ")
			rf := ReplayFile{Property: c.Check.ID, Sig: sig, Msg: msg, Seed: c.Seed, Tier: c.Tier, Case: raw}
			b, _ := json.MarshalIndent(rf, "", " ")
			_ = os.WriteFile(filepath.Join(dir, fmt.Sprintf("s%02d-%04d-%s.json", c.Shard, n, sanitize(sig))), b, 0o644)
		}
		return
	}
	if KnownFor(c.Check.ID, sig) != nil {
		// a listed known finding that is not excluded by construction: report
		// it once (as KNOWN-FINDING) and let the campaign continue
		c.mu.Lock()
		first := !c.knownHit[sig]
		if c.knownHit == nil {
			c.knownHit = map[string]bool{}
		}
		c.knownHit[sig] = true
		c.res.Classes["known-finding-hit:"+sig]++
		c.mu.Unlock()
		if first {
			c.ReportViolation(sig, msg, cas)
		}
		return
	}
	c.mu.Lock()
	c.lastFail = &failure{Case: cas, Msg: msg, Sig: sig}
	c.mu.Unlock()
	t.Fatalf("%s: %s", sig, msg)
}

// Rapid runs prop for n cases with the shard's seed (salt distinguishes
// several campaigns of one check). It returns false if a failure was found
// (already reported as a violation with a shrunk replay file).
func (c *Ctx) Rapid(name string, salt, n int, shrink time.Duration, prop func(*rapid.T)) bool {
	InitFlags()
	if n <= 0 {
		return true
	}
	_ = flag.Set("rapid.checks", fmt.Sprint(n))
	_ = flag.Set("rapid.seed", fmt.Sprint(c.RapidSeed(salt)))
	_ = flag.Set("rapid.shrinktime", shrink.String())
	tb := &capTB{name: c.Check.ID + "_" + name}
	c.mu.Lock()
	c.lastFail = nil
	c.mu.Unlock()
	func() {
		defer func() {
			if r := recover(); r != nil {
				tb.failed = true
				tb.Logf("panic in rapid runner: %v", r)
			}
		}()
		rapid.Check(tb, prop)
	}()
	if !tb.failed {
		return true
	}
	c.mu.Lock()
	lf := c.lastFail
	c.mu.Unlock()
	if lf == nil {
		// the property failed without going through CaseFail: harness bug,
		// a panic inside the harness, or too many invalid draws.
		c.Inconclusive("rapid campaign %s failed outside CaseFail: %s", name, strings.Join(tb.logs, " | "))
		return false
	}
	c.ReportViolation(lf.Sig, lf.Msg, lf.Case)
	return false
}

// RapidCollect runs prop for n cases with exactly the draws Rapid would make
// with the same salt; prop must never fail. Used for the first pass of
// two-pass differential checks.
func (c *Ctx) RapidCollect(name string, salt, n int, prop func(*rapid.T)) {
	InitFlags()
	if n <= 0 {
		return
	}
	_ = flag.Set("rapid.checks", fmt.Sprint(n))
	_ = flag.Set("rapid.seed", fmt.Sprint(c.RapidSeed(salt)))
	tb := &capTB{name: c.Check.ID + "_" + name}
	func() {
		defer func() {
			if r := recover(); r != nil {
				tb.failed = true
				tb.Logf("panic in rapid runner: %v", r)
			}
		}()
		rapid.Check(tb, prop)
	}()
	if tb.failed {
		c.Inconclusive("collect pass %s failed: %s", name, strings.Join(tb.logs, " | "))
	}
}

// ---------------------------------------------------------------------------
// known findings

// Known is one line of known_findings.jsonl.
type Known struct {
	Status     string `json:"status"` // "known" or "fixed"
	Property   string `json:"property"`
	Key        string `json:"key"` // failure signature
	What       string `json:"what"`
	Replay     string `json:"replay"`
	Commit     string `json:"commit,omitempty"`
	ExcludedBy string `json:"excluded_by,omitempty"`
}

var (
	knownOnce sync.Once
	knownAll  []Known
)

// LoadKnown reads known_findings.jsonl (never written at run time).
func LoadKnown() []Known {
	knownOnce.Do(func() {
		b, err := os.ReadFile(filepath.Join(Root, "known_findings.jsonl"))
		if err != nil {
			return
		}
		for _, line := range strings.Split(string(b), "\n") {
			line = strings.TrimSpace(line)
			if line == "" || strings.HasPrefix(line, "#") {
				continue
			}
			var k Known
			if json.Unmarshal([]byte(line), &k) == nil && k.Property != "" {
				knownAll = append(knownAll, k)
			}
		}
	})
	return knownAll
}

// KnownFor returns the known (not fixed) finding with this signature.
func KnownFor(prop, sig string) *Known {
	for i, k := range LoadKnown() {
		if k.Property == prop && k.Status == "known" && k.Key == sig {
			return &knownAll[i]
		}
	}
	return nil
}

// IsKnown reports whether a signature is a listed known finding; generators
// use it to switch the corresponding exclusion on.
func IsKnown(prop, sig string) bool { return KnownFor(prop, sig) != nil }

// LoadReplay reads a replay file.
func LoadReplay(path string) (*ReplayFile, error) {
	if !filepath.IsAbs(path) {
		path = filepath.Join(Root, path)
	}
	b, err := os.ReadFile(path)
	if err != nil {
		return nil, err
	}
	var rf ReplayFile
	if err := json.Unmarshal(b, &rf); err != nil {
		return nil, err
	}
	return &rf, nil
}

// Hash is a short content hash.
func Hash(s string) string {
	h := sha256.Sum256([]byte(s))
	return fmt.Sprintf("%x", h[:8])
}
