// Package diff runs one program on both sides (native result, interpreter
// outcome) and classifies the comparison.
package diff

import (
	"fmt"
	"regexp"
	"strings"

	"verif/internal/oracle"
	"verif/internal/yrun"
)

var posRe = regexp.MustCompile(`[A-Za-z0-9_./-]*\.go:\d+:\d+:?|\b\d+:\d+:`)
var numRe = regexp.MustCompile(`\d+`)

// NormErr strips positions and numbers from an error text so that it can be
// used as a failure class.
func NormErr(s string) string {
	s = posRe.ReplaceAllString(s, "")
	s = numRe.ReplaceAllString(s, "N")
	s = strings.TrimSpace(s)
	if i := strings.IndexByte(s, '\n'); i >= 0 {
		s = s[:i]
	}
	if len(s) > 90 {
		s = s[:90]
	}
	return s
}

// Verdict of a comparison.
type Verdict struct {
	Sig string // "" = agree
	Msg string
	// Discard: the case cannot be judged (native side did not build or run)
	Discard string
	// Inconclusive: harness trouble
	Inconclusive string
}

// Compare compares the native result with the interpreter outcome under the
// C01 rule: same stdout bytes and same ending (normal / panicked).
func Compare(nat *oracle.Result, out *yrun.Outcome) Verdict {
	switch {
	case nat == nil:
		return Verdict{Discard: "native-missing"}
	case !nat.Built:
		return Verdict{Discard: "native-build-failed: " + NormErr(nat.BuildErr)}
	case nat.TimedOut:
		return Verdict{Discard: "native-timeout"}
	case nat.Fatal:
		return Verdict{Discard: "native-fatal"}
	case nat.Exit != 0 && !nat.Panicked:
		return Verdict{Discard: fmt.Sprintf("native-exit-%d", nat.Exit)}
	}
	switch out.Class {
	case yrun.Timeout:
		return Verdict{Inconclusive: "interpreter wall-clock backstop hit"}
	case yrun.Crash:
		return Verdict{Sig: "worker-crash", Msg: "the interpreter crashed the worker process: " + out.Err}
	case yrun.Compile:
		return Verdict{Sig: "rejects-valid: " + NormErr(out.Err), Msg: "interpreter rejects a program the Go toolchain compiles: " + out.Err}
	case yrun.Error:
		return Verdict{Sig: "error: " + NormErr(out.Err), Msg: "interpreter returned an error: " + out.Err}
	case yrun.Diverged:
		return Verdict{Sig: "diverged", Msg: fmt.Sprintf("interpreter did not terminate within %d operations; native run terminated", out.Ops)}
	case yrun.Deadlock:
		return Verdict{Sig: "deadlock", Msg: "interpreter stopped executing operations without finishing (deadlock); native run terminated"}
	case yrun.Escaped:
		return Verdict{Sig: "escaped-panic", Msg: "a Go panic escaped the interpreter: " + out.Err}
	}
	if out.Stdout != nat.Stdout {
		return Verdict{Sig: "stdout", Msg: firstDiff(nat.Stdout, out.Stdout) + endings(nat, out)}
	}
	if nat.Panicked != (out.Class == yrun.Panic) {
		return Verdict{Sig: "ending", Msg: "same stdout but different ending:" + endings(nat, out)}
	}
	return Verdict{}
}

func endings(nat *oracle.Result, out *yrun.Outcome) string {
	n := "normal"
	if nat.Panicked {
		n = "panic: " + nat.PanicLine
	}
	y := out.Class
	if out.Class == yrun.Panic {
		y = "panic: " + out.PanicValue
	}
	return fmt.Sprintf(" [native ends %s; interpreter ends %s]", n, y)
}

func firstDiff(want, got string) string {
	wl, gl := strings.Split(want, "\n"), strings.Split(got, "\n")
	for i := 0; i < len(wl) || i < len(gl); i++ {
		var w, g string
		if i < len(wl) {
			w = wl[i]
		} else {
			w = "<end of output>"
		}
		if i < len(gl) {
			g = gl[i]
		} else {
			g = "<end of output>"
		}
		if w != g {
			return fmt.Sprintf("stdout differs at line %d: native %q, interpreter %q", i+1, clip(w), clip(g))
		}
	}
	return "stdout differs"
}

func clip(s string) string {
	if len(s) > 200 {
		return s[:200] + "…"
	}
	return s
}
