#!/bin/bash
# tools/reduce_all.sh <ID> [max] : reduce every survey failure of a check in parallel
export GOFLAGS=-mod=mod GOPROXY=off GOSUMDB=off GOTOOLCHAIN=local
cd /verif && go build -tags verif -o .build/reduce ./cmd/reduce || exit 2
id=$1; max=${2:-60}
rm -rf scratch/reduced/$id; mkdir -p scratch/reduced/$id
ls scratch/survey/$id/*.json | head -$max | xargs -P 10 -I{} sh -c 'timeout 300 .build/reduce {} > scratch/reduced/'$id'/$(basename {} .json).go 2>&1'
for f in scratch/reduced/$id/*.go; do echo "$(grep -v "^$" $f | wc -l) $f $(grep '^// SIG' $f)"; done | sort -n
