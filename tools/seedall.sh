#!/bin/bash
cd /verif
export GOFLAGS=-mod=mod GOPROXY=off GOSUMDB=off GOTOOLCHAIN=local
for d in seeded/*/; do
  n=$(basename $d)
  p=$(python3 -c "import json;print(json.load(open('$d/meta.json'))['property'])")
  [ "$n" = "c02c-typed-uint-const-as-signed" ] && p=C03
  out=$(tools/seedtest.sh $n $p 2>&1 | grep "^== ")
  echo "$out"
done
echo ALLDONE
