#!/bin/bash
# tools/seedconfirm.sh <out-dir> <pkgdir> [go test extra args...]
# Confirms a delivered seeded change independently of the agent's worktree: fresh worktree of /repo HEAD,
# demo placed in <pkgdir>, run without the patch (must pass) and with it (must fail), build must succeed.
set -u
out=$1; pkg=$2; shift 2
export GOFLAGS=-mod=mod GOPROXY=off GOSUMDB=off GOTOOLCHAIN=local
wt=/tmp/seedconfirm-$(basename $out)
git -C /repo worktree remove --force $wt 2>/dev/null
git -C /repo worktree add -q -f --detach $wt HEAD || exit 2
cp $out/demo_test.go.txt $wt/$pkg/zz_seed_demo_test.go
tests=$(grep -o '^func Test[A-Za-z0-9_]*' $out/demo_test.go.txt | sed 's/func //' | paste -sd'|')
echo "tests: $tests"
(cd $wt && timeout 600 go test -vet=off -count=1 -run "^($tests)\$" "$@" ./$pkg/ 2>&1 | tail -5); echo "WITHOUT rc=${PIPESTATUS[0]}"
git -C $wt apply $out/patch.diff || { echo "PATCH DOES NOT APPLY"; git -C /repo worktree remove --force $wt; exit 2; }
(cd $wt && go build ./... ) || echo "DOES NOT BUILD"
(cd $wt && timeout 600 go test -vet=off -count=1 -run "^($tests)\$" "$@" ./$pkg/ 2>&1 | tail -15); echo "WITH rc=${PIPESTATUS[0]}"
git -C /repo worktree remove --force $wt
