import sys
pid=sys.argv[1]
prop=open(f"/tmp/prop_{pid}.txt").read()
print(f"""You are a software engineer asked to play the adversary in a verification exercise on the Go interpreter traefik/yaegi. You work ONLY inside your own scratch git worktree of the repository: /tmp/seed-{pid} (already created; it is a full checkout with git history). Do not read or write anything under /verif, /repo or /root/.vp. No network. Every shell call needs: export GOFLAGS=-mod=mod GOPROXY=off GOSUMDB=off GOTOOLCHAIN=local . The machine is shared with other jobs, be patient with test run times (use generous timeouts, e.g. `-timeout 40m`).

Here is a semantic property the interpreter is supposed to satisfy:

--------
{prop}
--------

YOUR TASK: produce ONE realistic code change to the interpreter (a plausible regression: a refactoring slip, an optimisation that is wrong for some shapes, a dropped special case, an off-by-one, a lock/ordering mistake, a predicate loosened …, typically 1–15 changed lines in the anchored files) such that:
 1. the repository still compiles (`go build ./... && go vet ./interp`);
 2. the existing test suite still passes exactly as before. Procedure: FIRST, before changing anything, run `cd /tmp/seed-{pid} && go test -vet=off -count=1 -timeout 40m ./... 2>&1 | grep -E '^(--- FAIL|FAIL|ok)' | sort > /tmp/seedout/{pid}/base.txt` (some tests already fail in this sandbox because the checkout is not under GOPATH/src — that is the baseline). After your change run the same command into /tmp/seedout/{pid}/after.txt: the set of failing tests (`--- FAIL` lines) must be identical (timings in `ok` lines differ, ignore them). Load-sensitive tests TestEvalREPL and TestYaegiCmdCancel may flake: rerun them alone if needed;
 3. the change BREAKS the property above for some inputs — but NOT in a way that ordinary use would expose at once. It must need something specific to manifest: a particular combination of constructs, an unusual input, a multi-step sequence of operations, a particular interleaving or cancellation instant, or two cooperating sites that each look fine alone. A change that makes trivial programs fail is not interesting;
 4. you provide a demonstration: a small self-contained Go test file (package interp_test, placed in /tmp/seed-{pid}/interp/ as seeded_{pid.lower()}_demo_test.go, using only the public API: interp.New, Use(stdlib.Symbols), Eval/EvalPath/…, and comparing with the behaviour the Go specification / toolchain mandates, with the expected values hard-coded) that FAILS with your change and PASSES without it (verify both WITHOUT using git stash — the stash is shared between worktrees of other engineers: save your source change with `git diff -- . ":!*seeded_*_demo_test.go" > /tmp/seedout/{pid}/patch.diff`, undo it with `git apply -R`, run `go test ./interp -run <YourTestName> -count=1`, re-apply with `git apply`, run again). If the property is about another package (extract, stdlib tables) place the test in the corresponding package directory instead.

Deliver into /tmp/seedout/{pid}/ : `patch.diff` (output of `git diff -- . ':!*seeded_*_demo_test.go'` = the source change only), the demo test file (copy), and `NOTES.md` explaining: what the change is, why it plausibly slips through review, exactly what is needed for it to manifest, the observed wrong behaviour vs the mandated one, and the commands + outputs showing base/after suite equality and demo fail/pass. Finally leave the worktree with your change applied (uncommitted). Reply with a 10-line summary.""")
