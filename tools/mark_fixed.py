#!/usr/bin/env python3
"""tools/mark_fixed.py: mark known findings as fixed. Reads lines 'PROP key commit' on stdin."""
import json, os, shutil, sys
fixed={}
for l in sys.stdin:
    l=l.strip()
    if not l or l.startswith('#'): continue
    p,k,c=l.split()
    fixed[(p,k)]=c
lines=[json.loads(l) for l in open('/verif/known_findings.jsonl') if l.strip()]
seen=set()
for d in lines:
    k=(d['property'],d['key'])
    if k in fixed and d['status']=='known':
        c=fixed[k]; seen.add(k)
        src='/verif/'+d['replay']; dst=src.replace('replays/known/','replays/fixed/')
        os.makedirs(os.path.dirname(dst),exist_ok=True)
        if os.path.exists(src): shutil.move(src,dst)
        what=d['what']
        d.clear()
        d.update({"status":"fixed","property":k[0],"key":k[1],"commit":c,"what":f"fixed: property={k[0]} {c} {what}","replay":dst.replace('/verif/','')})
print("not found as known:", sorted(set(fixed)-seen))
open('/verif/known_findings.jsonl','w').write("\n".join(json.dumps(d) for d in lines)+"\n")
