#!/bin/bash
# tools/probe.sh file.go : run natively and under yaegi, show both
export GOFLAGS=-mod=mod GOPROXY=off GOSUMDB=off GOTOOLCHAIN=local
cd /verif && go build -tags verif -o .build/yprobe ./cmd/yprobe || exit 2
f=$(readlink -f "$1")
d=$(mktemp -d); cp "$f" $d/main.go; (cd $d && cat > go.mod <<EOG
module probe
go 1.22
EOG
echo "=== native"; timeout 20 go run . 2>&1 | head -${2:-40}); rm -rf $d
echo "=== yaegi"; timeout 30 .build/yprobe "$f" 2>&1 | head -${2:-40}
