#!/bin/bash
export GOFLAGS=-mod=mod GOPROXY=off GOSUMDB=off GOTOOLCHAIN=local
cd /verif && go build -tags verif -o .build/reduce ./cmd/reduce || exit 2
exec .build/reduce "$@"
