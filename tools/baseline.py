#!/usr/bin/env python3
"""Run the repository's baseline suite (guard off) and compare with BASELINE.json's stable_pass list."""
import json, subprocess, sys, os
env = dict(os.environ, GOFLAGS="-mod=mod", GOPROXY="off", GOSUMDB="off", GOTOOLCHAIN="local")
p = subprocess.run("cd " + os.environ.get("BASELINE_REPO", "/repo") + " && go test -json -vet=off -count=1 -timeout 25m ./...", shell=True, capture_output=True, text=True, env=env)
passed = set()
failed = set()
for line in p.stdout.splitlines():
    try:
        e = json.loads(line)
    except Exception:
        continue
    if e.get("Test") and e.get("Action") in ("pass", "fail"):
        name = e["Package"] + "::" + e["Test"]
        (passed if e["Action"] == "pass" else failed).add(name)
base = json.load(open("/root/.vp/BASELINE.json"))
stable = set(base["stable_pass"])
missing = sorted(stable - passed)
print(f"passed={len(passed)} failed={len(failed)} stable={len(stable)} stable_not_passing={len(missing)}")
for m in missing[:50]:
    print("  MISSING", m)
sys.exit(1 if missing else 0)
