#!/bin/bash
# tools/runall.sh [tier] : run every claimed check once, print one line per check
cd /verif
tier=${1:-quick}
for id in $(python3 -c "import json;print(' '.join(c['property_id'] for c in json.load(open('MANIFEST.json'))['checks']))"); do
  s=$(date +%s)
  out=$(bin/check $id $tier 2>&1); rc=$?
  e=$(( $(date +%s) - s ))
  k=$(echo "$out" | grep -c '^KNOWN-FINDING')
  v=$(echo "$out" | grep -c '^VIOLATION')
  echo "$id rc=$rc known=$k violations=$v ${e}s | $(echo "$out" | grep -v '^KNOWN-FINDING\|^detail' | tail -1 | cut -c1-150)"
done
