#!/usr/bin/env python3
"""Regenerate MANIFEST.json from tools/manifest_checks.json (claimed checks) and properties.jsonl."""
import json, subprocess
claimed = json.load(open("/verif/tools/manifest_checks.json"))
props = [json.loads(l) for l in open("/verif/properties.jsonl")]
hooks = subprocess.run(["git","-C","/repo","log","--format=%H %s"],capture_output=True,text=True).stdout.splitlines()
hook_commits = [l.split()[0] for l in hooks if l.split(" ",1)[1].startswith("verif:")]
checks = []
for p in props:
    c = claimed["checks"].get(p["id"])
    if not c: continue
    checks.append({
        "property_id": p["id"],
        "quick_cmd": f"bin/check {p['id']} quick",
        "thorough_cmd": f"bin/check {p['id']} thorough",
        "evidence_file": f"/verif/evidence/{p['id']}.json",
        "replay_cmd_template": f"bin/check replay {p['id']} {{path}}",
        "engine": "vcheck",
        "level_claimed": {"category": c.get("category","exploration"), "text": c["text"], "design_ref": c["design_ref"]},
        "level_note": c["note"],
        "technique": c["technique"],
    })
na = [{"property_id": p["id"], "reason": claimed["not_applicable"].get(p["id"], "check not built yet in this session; see DESIGN.md build order")} for p in props if p["id"] not in claimed["checks"]]
m = {
  "version": 1,
  "setup_cmd": "bin/check setup",
  "hooks": {"guard": "verif", "enable": "go build -tags verif (bin/check builds cmd/vcheck against /repo with -tags verif)",
            "baseline_off_cmd": "cd /repo && go test -json -vet=off -count=1 -timeout 25m ./...",
            "source_commits": hook_commits, "add_only": True},
  "engines": [{"name": "vcheck", "path": "/verif/cmd/vcheck", "serves_properties": [c["property_id"] for c in checks],
               "kind_free_text": "Go binary rebuilt from /repo's working tree on every call; per property a pgregory.net/rapid campaign (sharded over processes) against an explicit oracle, shrunk failures written as JSON replay files"}],
  "checks": checks,
  "notes": claimed.get("notes",""),
  "not_applicable": na,
}
json.dump(m, open("/verif/MANIFEST.json","w"), indent=1)
print("claimed:", [c["property_id"] for c in checks], "not claimed:", len(na))
