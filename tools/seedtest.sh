#!/bin/bash
# tools/seedtest.sh <seeded-dir-name> <CHECKID> [tier] [more check ids...]
# Applies /verif/seeded/<name>/patch.diff to a scratch worktree of /repo HEAD and runs the check(s) against it.
set -u
name=$1; shift; tier=quick
cd /verif
wt=/tmp/seedwt-$name
git -C /repo worktree remove --force $wt 2>/dev/null
git -C /repo worktree add -q $wt HEAD || exit 2
if ! git -C $wt apply --3way /verif/seeded/$name/patch.diff 2>/tmp/seedapply.log; then
  if ! git -C $wt apply /verif/seeded/$name/patch.diff 2>>/tmp/seedapply.log; then echo "PATCH DOES NOT APPLY"; cat /tmp/seedapply.log; git -C /repo worktree remove --force $wt; exit 2; fi
fi
(cd $wt && GOFLAGS=-mod=mod go build ./... ) || { echo "DOES NOT BUILD"; exit 2; }
for id in "$@"; do
  case $id in quick|thorough) tier=$id; continue;; esac
  lc=$(echo $id | tr A-Z a-z)
  s=$(date +%s)
  out=$(VERIF_REPO=$wt VCHECK_DEV=$lc bin/check $id $tier 2>&1); rc=$?
  echo "== $name vs $id $tier: rc=$rc $(( $(date +%s)-s ))s"
  echo "$out" | grep -v '^KNOWN-FINDING' | grep '^detail\|^VIOLATION\|^INCONCLUSIVE' | head -4 | cut -c1-300
  echo "$out" | tail -1 | cut -c1-200
done
git -C /repo worktree remove --force $wt
tag=$(echo "$wt" | md5sum | cut -c1-8); rm -f .build/*alt-$tag*
