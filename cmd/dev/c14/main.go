// Command c14 is a development binary holding only the C14 check.
package main

import (
	_ "verif/checks/c14"
	"verif/internal/driver"
)

func main() { driver.Main() }
