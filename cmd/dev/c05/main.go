// Command c05 is a development binary holding only the C05 check.
package main

import (
	_ "verif/checks/c05"
	"verif/internal/driver"
)

func main() { driver.Main() }
