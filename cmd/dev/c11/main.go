// Command c11 is a development binary holding only the C11 check.
package main

import (
	_ "verif/checks/c11"
	"verif/internal/driver"
)

func main() { driver.Main() }
