// Command c06 is a development binary holding only the C06 check.
package main

import (
	_ "verif/checks/c06"
	"verif/internal/driver"
)

func main() { driver.Main() }
