// Command c09 is a development binary holding only the C09 check.
package main

import (
	_ "verif/checks/c09"
	"verif/internal/driver"
)

func main() { driver.Main() }
