// Command c17 is a development binary holding only the C17 check.
package main

import (
	_ "verif/checks/c17"
	"verif/internal/driver"
)

func main() { driver.Main() }
