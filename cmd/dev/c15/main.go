// Command c15 is a development binary holding only the C15 check.
package main

import (
	_ "verif/checks/c15"
	"verif/internal/driver"
)

func main() { driver.Main() }
