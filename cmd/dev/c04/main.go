// Command c04 is a development binary holding only the C04 check.
package main

import (
	_ "verif/checks/c04"
	"verif/internal/driver"
)

func main() { driver.Main() }
