// Command c13 is a development binary holding only the C13 check.
package main

import (
	_ "verif/checks/c13"
	"verif/internal/driver"
)

func main() { driver.Main() }
