// Command c16 is a development binary holding only the C16 check.
package main

import (
	_ "verif/checks/c16"
	"verif/internal/driver"
)

func main() { driver.Main() }
