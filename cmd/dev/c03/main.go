// Command c03 is a development binary holding only the C03 check.
package main

import (
	_ "verif/checks/c03"
	"verif/internal/driver"
)

func main() { driver.Main() }
