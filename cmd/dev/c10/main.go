// Command c10 is a development binary holding only the C10 check.
package main

import (
	_ "verif/checks/c10"
	"verif/internal/driver"
)

func main() { driver.Main() }
