// Command c08 is a development binary holding only the C08 check.
package main

import (
	_ "verif/checks/c08"
	"verif/internal/driver"
)

func main() { driver.Main() }
