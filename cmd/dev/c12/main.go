// Command c12 is a development binary holding only the C12 check.
package main

import (
	_ "verif/checks/c12"
	"verif/internal/driver"
)

func main() { driver.Main() }
