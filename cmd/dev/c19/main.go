// Command c19 is a development binary holding only the C19 check.
package main

import (
	_ "verif/checks/c19"
	"verif/internal/driver"
)

func main() { driver.Main() }
