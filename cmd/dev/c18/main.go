// Command c18 is a development binary holding only the C18 check.
package main

import (
	_ "verif/checks/c18"
	"verif/internal/driver"
)

func main() { driver.Main() }
