// Command c01 is a development binary holding only the C01 check.
package main

import (
	_ "verif/checks/c01"
	"verif/internal/driver"
)

func main() { driver.Main() }
