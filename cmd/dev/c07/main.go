// Command c07 is a development binary holding only the C07 check.
package main

import (
	_ "verif/checks/c07"
	"verif/internal/driver"
)

func main() { driver.Main() }
