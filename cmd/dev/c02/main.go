// Command c02 is a development binary holding only the C02 check.
package main

import (
	_ "verif/checks/c02"
	"verif/internal/driver"
)

func main() { driver.Main() }
