// Command yprobe runs a Go source file under the interpreter (development aid).
package main

import (
	"fmt"
	"os"
	"time"

	"verif/internal/yrun"
)

func main() {
	b, err := os.ReadFile(os.Args[1])
	if err != nil {
		panic(err)
	}
	out, _ := yrun.Execute(&yrun.Job{Src: string(b)}, 5*time.Second)
	fmt.Print(out.Stdout)
	fmt.Printf("--- class=%s err=%q panic=%q ops=%d\n", out.Class, out.Err, out.PanicValue, out.Ops)
	if out.Stderr != "" {
		fmt.Printf("--- stderr: %s\n", out.Stderr)
	}
}
