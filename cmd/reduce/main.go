// Command reduce is a development aid: it minimises the "src" of a replay
// file line by line while the native/interpreter comparison keeps failing
// with the same signature.
//
//	reduce <replay.json>   → prints the reduced source and verdict
package main

import (
	"encoding/json"
	"fmt"
	"os"
	"path/filepath"
	"regexp"
	"strings"
	"time"

	"verif/checks/c11"
	"verif/checks/c19"
	"verif/internal/diff"
	"verif/internal/oracle"
	"verif/internal/progen"
	"verif/internal/vf"
	"verif/internal/yrun"
)

var declRe = regexp.MustCompile(`^\s*(?:var )?([a-z]+[0-9]+)(?:, [a-z]+[0-9]+)? (?::=|[^=]*=|\S+$)`)

var (
	batch *oracle.Batch
	pool  *yrun.Pool
)

func verdict(src string) diff.Verdict {
	if progen.TypeCheck(src) != "" {
		return diff.Verdict{Discard: "ill-typed"}
	}
	if strings.HasPrefix(os.Getenv("REDUCE_MODE"), "dbg") {
		p, d := c19.ProbeBoth(src)
		if p != d {
			return diff.Verdict{Sig: "stdout", Msg: fmt.Sprintf("plain %q debug %q", p, d)}
		}
		return diff.Verdict{}
	}
	_, nat := batch.Ensure(oracle.Single(src))
	out := pool.Run(&yrun.Job{Src: src}, time.Minute)
	return diff.Compare(nat, &out)
}

func main() {
	if len(os.Args) > 1 && os.Args[1] == "worker" {
		yrun.WorkerMain(os.Args[2:])
		return
	}
	if os.Getenv("REDUCE_MODE") == "c11" {
		rf, err := vf.LoadReplay(os.Args[1])
		if err != nil {
			panic(err)
		}
		fmt.Println(c11.Reduce(rf.Case))
		return
	}
	var src string
	if strings.HasSuffix(os.Args[1], ".go") {
		b, _ := os.ReadFile(os.Args[1])
		src = string(b)
	} else {
		rf, err := vf.LoadReplay(os.Args[1])
		if err != nil {
			panic(err)
		}
		var c struct {
			Src string `json:"src"`
		}
		if err := json.Unmarshal(rf.Case, &c); err != nil {
			panic(err)
		}
		src = c.Src
	}
	dir, _ := os.MkdirTemp("", "reduce-")
	defer os.RemoveAll(dir)
	batch, _ = oracle.NewBatch(filepath.Join(dir, "o"))
	pool = yrun.NewPool(1, filepath.Join(dir, "w"))
	defer pool.Close()
	v0 := verdict(src)
	if v0.Sig == "" {
		fmt.Println("no failure:", v0.Discard, v0.Inconclusive)
		return
	}
	want := v0.Sig
	lines := strings.Split(src, "\n")
	same := func(ls []string) bool {
		v := verdict(strings.Join(ls, "\n"))
		return v.Sig == want
	}
	// try removing chunks: blocks (line ending in "{" to its closing line of
	// same indentation) and single lines; repeat until fixpoint
	for changed := true; changed; {
		changed = false
		for i := len(lines) - 1; i >= 0; i-- {
			if i >= len(lines) {
				continue
			}
			l := lines[i]
			if strings.TrimSpace(l) == "" {
				continue
			}
			j := i
			if strings.HasSuffix(strings.TrimSpace(l), "{") {
				ind := len(l) - len(strings.TrimLeft(l, "\t"))
				for k := i + 1; k < len(lines); k++ {
					lk := lines[k]
					if strings.TrimSpace(lk) == "" {
						continue
					}
					if len(lk)-len(strings.TrimLeft(lk, "\t")) == ind && strings.HasPrefix(strings.TrimSpace(lk), "}") && !strings.HasSuffix(strings.TrimSpace(lk), "{") {
						j = k
						break
					}
				}
				if j == i {
					continue
				}
			}
			cand := append(append([]string{}, lines[:i]...), lines[j+1:]...)
			if same(cand) {
				lines = cand
				changed = true
				continue
			}
			// declaration line: remove it together with the mentions of the
			// variable in argument lists and its `_ = v` line
			if m := declRe.FindStringSubmatch(l); m != nil && j == i {
				name := m[1]
				argRe := regexp.MustCompile(`, ` + regexp.QuoteMeta(name) + `\b`)
				var c2 []string
				for k, x := range lines {
					if k == i || strings.TrimSpace(x) == "_ = "+name {
						continue
					}
					c2 = append(c2, argRe.ReplaceAllString(x, ""))
				}
				if same(c2) {
					lines = c2
					changed = true
					continue
				}
			}
			// block: try keeping the body only (unwrap)
			if j > i+1 {
				var body []string
				for _, b := range lines[i+1 : j] {
					body = append(body, strings.TrimPrefix(b, "\t"))
				}
				cand = append(append(append([]string{}, lines[:i]...), body...), lines[j+1:]...)
				if same(cand) {
					lines = cand
					changed = true
				}
			}
		}
	}
	out := strings.Join(lines, "\n")
	fmt.Println(out)
	v := verdict(out)
	fmt.Printf("// SIG: %s\n// MSG: %s\n", v.Sig, v.Msg)
}
