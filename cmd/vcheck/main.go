// Command vcheck is the single binary holding every property check.
package main

import (
	_ "verif/checks"
	"verif/internal/driver"
)

func main() { driver.Main() }
