// Command dbgprobe runs a replay case of C19 or a file (all-lines breakpoints) and prints the verdict (development aid).
package main

import (
	"encoding/json"
	"fmt"
	"os"
	"strings"

	"verif/checks/c19"
)

func main() {
	b, _ := os.ReadFile(os.Args[1])
	if strings.HasSuffix(os.Args[1], ".json") {
		var rf struct {
			Case json.RawMessage `json:"case"`
		}
		json.Unmarshal(b, &rf)
		msg, sig := c19.ReplayRaw(rf.Case)
		fmt.Println(sig, "|", msg)
		return
	}
	var lines []int
	for i := 2; i < len(os.Args); i++ {
		var l int
		fmt.Sscan(os.Args[i], &l)
		lines = append(lines, l)
	}
	c := &c19.Case{Src: string(b), Lines: lines}
	sig, msg := c19.CheckCase(c)
	fmt.Println(sig, "|", msg)
}
